(* Abstract algorithm model of the graph engine (DESIGN.md Appendix B; docs/absgraph.md).  Definitions only;
   proofs in Proofs/AbsGraphProofs.v, theorems in Props/C01.v and Props/C02.v.

   A labelled DAG: association list  id -> (label, variant ids, successors).  Its LANGUAGE is the list of
   (concatenated labels, concatenated variant ids) over the paths from a start node to a sink.  The operations the
   engine performs on its graphs are modelled as total functions on this structure:

     drop        remove successor edges (complexity limits, truncated / hybrid nodes)         language shrinks
     merge_nodes / collapse   identify two nodes with the same label and the same successors   string language kept
     split_node  cut the label of a node at an offset (cleavage re-partitioning)               language kept
     push_right  move the last letters of a node into its successors (codon alignment)         language kept
     joins       join 1..k+1 consecutive nodes of a path (peptide calling)                     = Digest.cleave

   The second half are the executable STAGE CHECKS that the correspondence (harness/lib/cvgraph.py, stream 'graph'
   of C02) runs through the extracted oracle on the graphs the real callVariant dumps with --graph-output-dir:
   the dumped graph is converted to this encoding and  lang  is compared with Spec.apply_hap / Spec.must_haps
   (TVG stage), with the codon-wise translation (translate stage), and with Digest.sites (cleavage stage). *)
From MoPep Require Import Model.Base Model.Rule Model.Digest Model.Spec Gen.Bio.
Open Scope Z_scope.

(* ------------------------------------------------------------------ graphs *)
Record node := mkNode { n_lab : seq; n_vids : list Z; n_succ : list nat }.
Definition graph := list (nat * node).

Fixpoint find (g : graph) (n : nat) : option node :=
  match g with
  | [] => None
  | (m, nd) :: g' => if Nat.eqb m n then Some nd else find g' n
  end.

Definition succs (g : graph) (n : nat) : list nat := match find g n with Some nd => n_succ nd | None => [] end.
Definition lab (g : graph) (n : nat) : seq := match find g n with Some nd => n_lab nd | None => [] end.
Definition vids (g : graph) (n : nat) : list Z := match find g n with Some nd => n_vids nd | None => [] end.

Definition is_nil {A} (l : list A) : bool := match l with [] => true | _ => false end.
Definition sink (g : graph) (n : nat) : bool := is_nil (succs g n).

(* paths from n that end in a node accepted by fin, at most `fuel` nodes long *)
Fixpoint paths_fin (g : graph) (fin : nat -> bool) (fuel n : nat) : list (list nat) :=
  match fuel with
  | O => []
  | S f => (if fin n then [[n]] else []) ++ map (cons n) (flat_map (paths_fin g fin f) (succs g n))
  end.

(* start-to-sink paths; fuel = number of nodes is enough for a topologically numbered graph
   (Proofs/AbsGraphProofs.v: paths_fuel_indep) *)
Definition paths (g : graph) (n : nat) : list (list nat) := paths_fin g (sink g) (length g) n.

Definition word (g : graph) (p : list nat) : seq * list Z := (flat_map (lab g) p, flat_map (vids g) p).
Definition lang_fin (g : graph) (fin : nat -> bool) (fuel n : nat) : list (seq * list Z) :=
  map (word g) (paths_fin g fin fuel n).
Definition lang (g : graph) (n : nat) : list (seq * list Z) := map (word g) (paths g n).
Definition strings (l : list (seq * list Z)) : list seq := map fst l.

(* the same language without fuel: p is a path from n to an accepting node *)
Inductive Path (g : graph) (fin : nat -> bool) : nat -> list nat -> Prop :=
| Path_end : forall n, fin n = true -> Path g fin n [n]
| Path_step : forall n m q, In m (succs g n) -> Path g fin m q -> Path g fin n (n :: q).
Definition Lang (g : graph) (n : nat) (w : seq * list Z) : Prop :=
  exists p, Path g (sink g) n p /\ word g p = w.

(* topologically numbered: every edge goes to a larger id below N *)
Definition topo_node (N : nat) (e : nat * node) : bool :=
  Nat.ltb (fst e) N && forallb (fun m => Nat.ltb (fst e) m && Nat.ltb m N) (n_succ (snd e)).
Definition topo (g : graph) : bool := forallb (topo_node (length g)) g.

(* ------------------------------------------------------------------ operations *)
(* drop: keep only the successors accepted by alive (limits skip nodes; they never bridge them) *)
Definition drop (g : graph) (alive : nat -> bool) : graph :=
  map (fun e => (fst e, mkNode (n_lab (snd e)) (n_vids (snd e)) (filter alive (n_succ (snd e))))) g.

(* merge b into a: every edge to b is redirected to a, b is removed *)
Definition redirect (a b : nat) (m : nat) : nat := if Nat.eqb m b then a else m.
Definition merge_nodes (g : graph) (a b : nat) : graph :=
  map (fun e => (fst e, mkNode (n_lab (snd e)) (n_vids (snd e)) (map (redirect a b) (n_succ (snd e)))))
      (filter (fun e => negb (Nat.eqb (fst e) b)) g).

Fixpoint eq_nats (a b : list nat) : bool :=
  match a, b with
  | [], [] => true
  | x :: a', y :: b' => Nat.eqb x y && eq_nats a' b'
  | _, _ => false
  end.

(* nodes that may be merged: same label, same successor list; with_vids: also the same variant ids
   (the engine's PVGNodeCollapser compares the label, the successors and only the indel / splice variants:
    substitution ids of the discarded node are lost, the STRING language is kept) *)
Definition twins (with_vids : bool) (g : graph) (a b : nat) : bool :=
  negb (Nat.eqb a b) &&
  match find g a, find g b with
  | Some x, Some y => eq_seq (n_lab x) (n_lab y) && eq_nats (n_succ x) (n_succ y) &&
                      (negb with_vids || eq_seq (n_vids x) (n_vids y))
  | _, _ => false
  end.

Fixpoint find_twin (with_vids : bool) (g : graph) (cands : list nat) (b : nat) : option nat :=
  match cands with
  | [] => None
  | a :: cs => if Nat.ltb a b && twins with_vids g a b then Some a else find_twin with_vids g cs b
  end.

(* one collapsing pass over all nodes (the root, id 0 by convention, is never removed: a twin has a smaller id) *)
Definition collapse_step (with_vids : bool) (g : graph) (b : nat) : graph :=
  match find_twin with_vids g (map fst g) b with
  | Some a => merge_nodes g a b
  | None => g
  end.
Definition collapse (with_vids : bool) (g : graph) : graph :=
  fold_left (collapse_step with_vids) (map fst g) g.

(* split node n at offset k: n keeps the first k letters and all variant ids, the fresh node gets the rest
   of the label and the successors *)
Definition split_node (g : graph) (n : nat) (k : nat) (fresh : nat) : graph :=
  match find g n with
  | None => g
  | Some nd =>
      map (fun e => if Nat.eqb (fst e) n
                    then (n, mkNode (firstn k (n_lab nd)) (n_vids nd) [fresh])
                    else e) g
      ++ [(fresh, mkNode (skipn k (n_lab nd)) [] (n_succ nd))]
  end.

(* move the letters of n behind offset k into every successor of n (codon alignment of a bubble: the
   successors must have no other predecessor, and n must not be a sink) *)
Definition preds (g : graph) (m : nat) : list nat :=
  map fst (filter (fun e => existsb (Nat.eqb m) (n_succ (snd e))) g).
Definition only_pred (g : graph) (n m : nat) : bool := forallb (Nat.eqb n) (preds g m).
Definition push_right (g : graph) (n : nat) (k : nat) : graph :=
  match find g n with
  | None => g
  | Some nd =>
      let tail := skipn k (n_lab nd) in
      map (fun e => if Nat.eqb (fst e) n then (n, mkNode (firstn k (n_lab nd)) (n_vids nd) (n_succ nd))
                    else if existsb (Nat.eqb (fst e)) (n_succ nd)
                         then (fst e, mkNode (tail ++ n_lab (snd e)) (n_vids (snd e)) (n_succ (snd e)))
                         else e) g
  end.

(* ------------------------------------------------------------------ joining consecutive nodes (peptide calling) *)
(* the labels of the nodes of a path, and the node boundaries inside the path string *)
Definition labels (g : graph) (p : list nat) : list seq := map (lab g) p.

Fixpoint bounds_from (i : nat) (ls : list seq) : list nat :=
  match ls with
  | [] => []
  | l :: ls' => (i + length l)%nat :: bounds_from (i + length l)%nat ls'
  end.
(* all boundaries 0 = b0 <= b1 <= ... <= bn = |concat ls| *)
Definition all_bounds (ls : list seq) : list nat := 0%nat :: bounds_from 0 ls.
(* inner boundaries: without 0 and without the end *)
Definition inner_bounds (ls : list seq) : list nat := removelast (bounds_from 0 ls).

(* join 1..k+1 consecutive labels, from every start; the same loop as Digest.cleave_loop, on labels *)
Section Joins.
  Variable wt : weight_table.
  Variable water : Z.
  Variable lim : limits.

  Definition emit_join (first nf : bool) (p : seq) : list seq :=
    (if first && negb nf && starts_with_M p then update wt water lim (tl p) else []) ++ update wt water lim p.

  (* concatenations of the first 1, 2, ... labels of ls (at most n of them) *)
  Fixpoint prefixes_cat (acc : seq) (n : nat) (ls : list seq) : list seq :=
    match n, ls with
    | S n', l :: ls' => (acc ++ l) :: prefixes_cat (acc ++ l) n' ls'
    | _, _ => []
    end.

  Fixpoint joins (nf first : bool) (ls : list seq) : list seq :=
    match ls with
    | [] => []
    | _ :: rest =>
        flat_map (emit_join first nf) (prefixes_cat [] (Z.to_nat (lim_k lim + 1)) ls)
        ++ joins nf false rest
    end.
End Joins.

(* ------------------------------------------------------------------ stage checks (executable, run on the real dumps) *)
(* variant ids are indices into the position-sorted record list of the transcript *)
Definition mask_of_ids (n : nat) (ids : list Z) : list bool :=
  map (fun i => memZ (Z.of_nat i) ids) (List.seq 0 n).
Definition hap_of_ids (vs : list variant) (ids : list Z) : list variant :=
  select (mask_of_ids (length vs) ids) vs.
Definition ids_in_range (n : nat) (ids : list Z) : bool :=
  forallb (fun i => (0 <=? i) && (i <? Z.of_nat n)) ids.

Fixpoint eq_bools (a b : list bool) : bool :=
  match a, b with
  | [], [] => true
  | x :: a', y :: b' => Bool.eqb x y && eq_bools a' b'
  | _, _ => false
  end.

(* --- stage (a): the transcript variant graph, one reading frame (off = nucleotides cut from the head).
   soundness of bubbles: a path labelled with the ids H spells apply_hap tx H (minus the first off bases) *)
Definition tvg_word_ok (tx : seq) (vs : list variant) (off : nat) (w : seq * list Z) : bool :=
  let h := hap_of_ids vs (snd w) in
  ids_in_range (length vs) (snd w) && pairwise false h && eq_seq (fst w) (skipn off (apply_hap tx h)).

Definition tvg_unsound (tx : seq) (vs : list variant) (off : nat) (ws : list (seq * list Z)) : list (seq * list Z) :=
  filter (fun w => negb (tvg_word_ok tx vs off w)) ws.

(* completeness of bubbles: every obliged haplotype (Spec.must_haps) is spelled by some path *)
Definition must_masks (x : input) : list (list bool) :=
  filter (fun m => must_hap x (select m (in_vars x))) (hap_masks true (in_vars x)).

Definition tvg_missing (x : input) (off : nat) (ws : list (seq * list Z)) : list (list bool) :=
  filter (fun m => negb (mem_seq (skipn off (apply_hap (in_tx x) (select m (in_vars x)))) (strings ws)))
         (must_masks x).

(* --- stage (b): translation.  Codon by codon over the WHOLE string ('*' for a stop codon, no Sec) *)
Fixpoint translate_all (s : seq) : seq :=
  match s with
  | a :: b :: c :: s' => codon_aa [a; b; c] :: translate_all s'
  | _ => []
  end.

(* ... and with the Sec positions secs (coordinates of the first base; i = coordinate of the first base of s) *)
Fixpoint translate_all_sec (s : seq) (i : Z) (secs : list Z) : seq :=
  match s with
  | a :: b :: c :: s' =>
      (if memZ i secs && eq_seq [a; b; c] [T_nt; G_nt; A_nt] then U_code else codon_aa [a; b; c])
      :: translate_all_sec s' (i + 3) secs
  | _ => []
  end.

Definition unU (s : seq) : seq := map (fun c => if c =? U_code then STOP else c) s.

(* the engine appends a fake '*' to a branch whose last DNA node holds less than one codon *)
Definition aa_matches (p t : seq) : bool := eq_seq (unU p) t || eq_seq (unU p) (t ++ [STOP]).

Definition same_ids (n : nat) (a b : list Z) : bool := eq_bools (mask_of_ids n a) (mask_of_ids n b).

(* PVG words that are not the translation of a TVG word with the same variant set *)
Definition tr_extra (n : nat) (tvg pvg : list (seq * list Z)) : list (seq * list Z) :=
  filter (fun p => negb (existsb (fun t => same_ids n (snd p) (snd t) && aa_matches (fst p) (translate_all (fst t))) tvg)) pvg.
(* TVG words whose translation no PVG word spells *)
Definition tr_missing (n : nat) (tvg pvg : list (seq * list Z)) : list (seq * list Z) :=
  filter (fun t => negb (existsb (fun p => same_ids n (snd p) (snd t) && aa_matches (fst p) (translate_all (fst t))) pvg)) tvg.

(* positions (index in the peptide string) of U *)
Fixpoint u_positions (s : seq) (k : Z) : list Z :=
  match s with
  | [] => []
  | c :: s' => (if c =? U_code then [k] else []) ++ u_positions s' (k + 1)
  end.

(* U only where an annotated Sec codon of the haplotype lies, in frame *)
Definition u_legit (x : input) (off : Z) (w : seq * list Z) : bool :=
  let h := hap_of_ids (in_vars x) (snd w) in
  let allowed := map (shift h) (in_sec x) in
  forallb (fun k => memZ (3 * k + off) allowed) (u_positions (fst w) 0).

(* an annotated Sec codon that no record of the haplotype comes near (one codon either side) and that is in
   frame on this path is read as U *)
Definition u_expected (x : input) (off : Z) (w : seq * list Z) : bool :=
  let h := hap_of_ids (in_vars x) (snd w) in
  forallb (fun p =>
    let q := shift h p - off in
    sec_touched_wide h p || negb (q mod 3 =? 0) || (q <? 0) ||
    match nthZ (fst w) (q / 3) with Some c => c =? U_code | None => true end) (in_sec x).

(* --- stage (c): cleavage.  Expected node boundaries of a path string: the rule's sites evaluated on the whole
   string (a stop '*' is an ordinary letter for the rule), plus both sides of every '*' *)
Fixpoint star_bounds (s : seq) (i : nat) : list nat :=
  match s with
  | [] => []
  | c :: s' => (if c =? STOP then [i; S i] else []) ++ star_bounds s' (S i)
  end.

Definition inner (n : nat) (l : list nat) : list nat := filter (fun i => Nat.ltb 0 i && Nat.ltb i n) l.
Definition subset_nat (a b : list nat) : bool := forallb (fun i => mem_nat i b) a.

Definition exp_bounds (r : rule) (exc : option rule) (s : seq) : list nat :=
  inner (length s) (sites r exc s ++ star_bounds s 0).

(* sites that exist only through an alternative WITH look-behind (finding D14b-lookbehind) *)
Definition soft_sites (r : rule) (s : seq) : list nat :=
  filter (fun i => negb (mem_nat i (raw_sites (firm_rule r) s))) (raw_sites r s).
(* sites of the rule that the exception suppresses (finding D14) *)
Definition suppressed_sites (r : rule) (exc : option rule) (s : seq) : list nat :=
  filter (fun i => negb (mem_nat i (sites r exc s))) (raw_sites r s).

Definition sym_diff (a b : list nat) : list nat :=
  filter (fun i => negb (mem_nat i b)) a ++ filter (fun i => negb (mem_nat i a)) b.

(* verdict for one path: 0 = boundaries are exactly the expected ones; 1 = every expected boundary is a node
   boundary (extra ones exist: pop-collapsed nodes); 2 = the deviation is confined to soft sites (D14b);
   3 = confined to exception-suppressed sites and their neighbours (D14); 4 = unexplained *)
Definition near (l : list nat) (i : nat) : bool :=
  existsb (fun j => Nat.leb j (S i) && Nat.leb i (S j)) l.

Definition cleave_verdict (r : rule) (exc : option rule) (ls : list seq) : Z :=
  let s := concat ls in
  let got := inner (length s) (bounds_from 0 ls) in
  let exp := exp_bounds r exc s in
  if subset_nat got exp && subset_nat exp got then 0
  else
    let d := sym_diff got exp in
    if forallb (fun i => mem_nat i (soft_sites r s)) d then 2
    else if match exc with Some _ => forallb (near (suppressed_sites r exc s)) d | None => false end then 3
    else if subset_nat exp got then 1
    else 4.

(* string languages as sets *)
Definition only_in (a b : list seq) : list seq := filter (fun s => negb (mem_seq s b)) a.

(* a branch may end where the string continues with a stop: p is then a string of the graph "before" cut in
   front of a '*' (the engine keeps such a copy of the node in front of a stop codon, linked to its stop sink) *)
Fixpoint is_prefix (p s : seq) : bool :=
  match p, s with
  | [], _ => true
  | a :: p', b :: s' => (a =? b) && is_prefix p' s'
  | _ :: _, [] => false
  end.
Definition stop_cut (before : list seq) (p : seq) : bool := existsb (is_prefix (p ++ [STOP])) before.
Definition invented (before after : list seq) : list seq :=
  filter (fun p => negb (mem_seq p before) && negb (stop_cut before p)) after.

(* ------------------------------------------------------------------ bubble creation as an algorithm (round 2) *)
(* add_bubbles ref vs: the design-level content of ThreeFrameTVG.create_variant_graph / apply_variant for records
   t[v_s, v_e) := v_alt (Spec.variant; SNV / MNV / INDEL after anchoring):
     * the reference chain is cut at every record boundary (cuts = 0, |ref|, every v_s and v_e); the reference node
       of a cut c spells ref[c, next cut) and leads to the junction at its end;
     * record j contributes ONE sibling node carrying v_alt, labelled with its index j, that leaves the chain at the
       junction v_s and re-joins it at the junction v_e;
     * a junction p offers the reference node starting at p (when p < |ref|) and every record node starting at p.
   Overlapping records are alternatives: a path that took record a is at junction v_e a and can only take records
   starting there or later.  Abutting records (v_e a = v_s b) CAN follow each other: this is Spec's permissive
   compatibility (compat false, the MAY semantics); the strict one (compat true) selects a subset of these paths.
   Node ids: root 0; reference node of cut p: 1 + p*K; record j (starting at p): 1 + p*K + 1 + j, K = |vs| + 2:
   ids grow along every edge. *)
Definition bb_K (vs : list variant) : nat := S (S (length vs)).
Definition bb_idR (K : nat) (p : Z) : nat := S (Z.to_nat p * K).
Definition bb_idV (K : nat) (p : Z) (j : nat) : nat := S (Z.to_nat p * K + S j).
Definition bb_cuts (L : Z) (vs : list variant) : list Z := 0 :: L :: flat_map (fun v => [v_s v; v_e v]) vs.
(* the smallest cut behind p (L when there is none) *)
Definition bb_next (cs : list Z) (L p : Z) : Z :=
  fold_right (fun c acc => if (p <? c) && (c <? acc) then c else acc) L cs.
Fixpoint bb_starts (K : nat) (vs : list variant) (p : Z) (j : nat) : list nat :=
  match vs with
  | [] => []
  | v :: r => (if v_s v =? p then [bb_idV K p j] else []) ++ bb_starts K r p (S j)
  end.
Definition bb_out (K : nat) (L : Z) (vs : list variant) (p : Z) : list nat :=
  (if p <? L then [bb_idR K p] else []) ++ bb_starts K vs p 0.
Definition bb_ref_node (ref : seq) (K : nat) (L : Z) (vs : list variant) (cs : list Z) (c : Z) : nat * node :=
  (bb_idR K c, mkNode (slice ref c (bb_next cs L c)) [] (bb_out K L vs (bb_next cs L c))).
Fixpoint bb_var_nodes (K : nat) (L : Z) (all vs : list variant) (j : nat) : graph :=
  match vs with
  | [] => []
  | v :: r => (bb_idV K (v_s v) j, mkNode (v_alt v) [Z.of_nat j] (bb_out K L all (v_e v))) :: bb_var_nodes K L all r (S j)
  end.
Definition add_bubbles (ref : seq) (vs : list variant) : graph :=
  let K := bb_K vs in
  let L := zlen ref in
  let cs := bb_cuts L vs in
  (0%nat, mkNode [] [] (bb_out K L vs 0))
  :: map (bb_ref_node ref K L vs cs) (filter (fun c => (0 <=? c) && (c <? L)) cs)
  ++ bb_var_nodes K L vs vs 0.

(* well-formed record list: inside the reference, non-empty interval; sorted by start *)
Definition bb_wf (ref : seq) (vs : list variant) : bool :=
  forallb (fun v => (0 <=? v_s v) && (v_s v <? v_e v) && (v_e v <=? zlen ref)) vs.
Fixpoint bb_sorted (vs : list variant) : bool :=
  match vs with
  | a :: ((b :: _) as r) => (v_s a <=? v_s b) && bb_sorted r
  | _ => true
  end.

(* the indices selected by a mask (the id set of the haplotype select m vs) *)
Fixpoint ids_of_mask (j : nat) (m : list bool) : list Z :=
  match m with
  | [] => []
  | b :: m' => (if b then [Z.of_nat j] else []) ++ ids_of_mask (S j) m'
  end.

(* the language the theorem add_bubbles_lang assigns to the graph, as an executable list: all pairwise compatible
   (permissive) sub-lists incl. the empty one *)
Definition bubble_spec (ref : seq) (vs : list variant) : list (seq * list Z) :=
  map (fun m => (apply_hap ref (select m vs), ids_of_mask 0 m))
      (filter (fun m => pairwise false (select m vs)) (masks (length vs))).

(* --- the real transcript variant graph against the MODEL graph (stage tvg-bubbles of the stream `graph`):
   real = words of the dumped graph in the reading frame `off`, model = lang (add_bubbles tx vs) 0 *)
Definition bb_model (x : input) (off : nat) : list (seq * list Z) :=
  map (fun w => (skipn off (fst w), snd w)) (lang (add_bubbles (in_tx x) (in_vars x)) 0).
Definition bb_same (n : nat) (a b : seq * list Z) : bool := same_ids n (snd a) (snd b) && eq_seq (fst a) (fst b).
(* real words (string, id set) the model graph does not have *)
Definition bb_real_only (x : input) (off : nat) (real : list (seq * list Z)) : list (seq * list Z) :=
  let n := length (in_vars x) in
  let ms := bb_model x off in
  filter (fun r => negb (existsb (bb_same n r) ms)) real.
(* a model word is obliged when its id set is empty (the reference) or an obliged haplotype *)
Definition bb_obliged (x : input) (w : seq * list Z) : bool :=
  is_nil (snd w) || existsb (eq_bools (mask_of_ids (length (in_vars x)) (snd w))) (must_masks x).
(* model words whose string the real graph does not spell: (obliged ones, number of the others) *)
Definition bb_model_only (x : input) (off : nat) (real : list (seq * list Z)) : list (seq * list Z) * Z :=
  let rs := strings real in
  let miss := filter (fun w => negb (mem_seq (fst w) rs)) (bb_model x off) in
  (filter (bb_obliged x) miss, zlen (filter (fun w => negb (bb_obliged x w)) miss)).

(* --- graphs on DERIVED backbones (fusion / alternative splicing / circRNA), stage tvg-bubbles / tvg-aligned.
   The Level-S models reduce such a record to a linear input y (SpecFusion.fuse_gen, SpecAS.as_apply_all,
   SpecCirc.circ_linear); by add_bubbles_lang the strings of the bubble graph of y are bubble_spec (in_tx y)
   (in_vars y).  Labels are not compared here (the ids of derived records are not those of the dump). *)
Definition ext_strings (off : nat) (y : input) : list seq :=
  map (fun w => skipn off (fst w)) (bubble_spec (in_tx y) (in_vars y)).
(* real strings that no permitted backbone / record combination spells *)
Definition ext_unsound (off : nat) (ys : list input) (real : list seq) : list seq :=
  let all := flat_map (ext_strings off) ys in
  filter (fun s => negb (mem_seq s all)) real.
(* strings of the obliged haplotypes hs of backbone y *)
Definition ext_obliged (off : nat) (y : input) (hs : list (list variant)) : list seq :=
  map (fun h => skipn off (apply_hap (in_tx y) h)) hs.
Definition ext_missing (obl real : list seq) : list seq := filter (fun s => negb (mem_seq s real)) obl.
(* translation stage without record semantics: n = number of distinct ids of the two graphs *)
Definition dedup_seqs (l : list seq) : list seq :=
  fold_right (fun s acc => if mem_seq s acc then acc else s :: acc) [] l.

(* --- membership of a string in the language of a graph without enumerating the language: walk the graph along
   the string (Proofs/BubbleProofs.v accepts_spec: = In s (strings (lang_fin g (sink g) fuel n))) *)
Fixpoint strip (l s : seq) : option seq :=
  match l, s with
  | [], _ => Some s
  | a :: l', b :: s' => if a =? b then strip l' s' else None
  | _ :: _, [] => None
  end.
Fixpoint accepts (g : graph) (fuel n : nat) (s : seq) : bool :=
  match fuel with
  | O => false
  | S f =>
      match strip (lab g n) s with
      | None => false
      | Some rest =>
          match succs g n with
          | [] => is_nil rest
          | ss => existsb (fun m => accepts g f m rest) ss
          end
      end
  end.
(* the real string s of reading frame off is spelled by the bubble graph of one of the backbones ys *)
Definition ext_accepted (off : nat) (ys : list input) (s : seq) : bool :=
  existsb (fun y => let g := add_bubbles (in_tx y) (in_vars y) in
                    accepts g (length g) 0 (firstn off (in_tx y) ++ s)) ys.
Definition ext_unsound_fast (off : nat) (ys : list input) (real : list seq) : list seq :=
  filter (fun s => negb (ext_accepted off ys s)) real.

(* tr_extra / tr_missing on DNA words that are already translated (each translation computed once) *)
Definition tr_extra_pre (n : nat) (ttr pvg : list (seq * list Z)) : list (seq * list Z) :=
  filter (fun p => negb (existsb (fun t => same_ids n (snd p) (snd t) && aa_matches (fst p) (fst t)) ttr)) pvg.
Definition tr_missing_pre (n : nat) (ttr pvg : list (seq * list Z)) : list (seq * list Z) :=
  filter (fun t => negb (existsb (fun p => same_ids n (snd p) (snd t) && aa_matches (fst p) (fst t)) pvg)) ttr.
