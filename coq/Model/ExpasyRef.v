(* Reference table of the ExPASy PeptideCutter rules as adopted by moPepGen 1.4.6 (pyteomics
   notation): the specification the code's regular expressions are compared with.  This file is
   WRITTEN ONCE and never regenerated: Props/C10.v proves that the table regenerated from
   /repo's expasy_rules.py on every run (Gen/Expasy.v) is equal to it.  (Character classes are
   sorted, duplicate-free lists of code points.) *)
From MoPep Require Import Model.Base Model.Rule.
Open Scope Z_scope.

Definition reference_rules : list (list Z * rule) := [
  (* arg-c : R *)
  ([97; 114; 103; 45; 99],
     [mkAlt [] (CIn [82]) []]);
  (* asp-n : \w(?=D) *)
  ([97; 115; 112; 45; 110],
     [mkAlt [] (CWord) [CIn [68]]]);
  (* bnps-skatole : W *)
  ([98; 110; 112; 115; 45; 115; 107; 97; 116; 111; 108; 101],
     [mkAlt [] (CIn [87]) []]);
  (* caspase 1 : (?<=[FWYL]\w[HAT])D(?=[^PEDQKR]) *)
  ([99; 97; 115; 112; 97; 115; 101; 32; 49],
     [mkAlt [CIn [70; 76; 87; 89]; CWord; CIn [65; 72; 84]] (CIn [68]) [CNotIn [68; 69; 75; 80; 81; 82]]]);
  (* caspase 2 : (?<=DVA)D(?=[^PEDQKR]) *)
  ([99; 97; 115; 112; 97; 115; 101; 32; 50],
     [mkAlt [CIn [68]; CIn [86]; CIn [65]] (CIn [68]) [CNotIn [68; 69; 75; 80; 81; 82]]]);
  (* caspase 3 : (?<=DMQ)D(?=[^PEDQKR]) *)
  ([99; 97; 115; 112; 97; 115; 101; 32; 51],
     [mkAlt [CIn [68]; CIn [77]; CIn [81]] (CIn [68]) [CNotIn [68; 69; 75; 80; 81; 82]]]);
  (* caspase 4 : (?<=LEV)D(?=[^PEDQKR]) *)
  ([99; 97; 115; 112; 97; 115; 101; 32; 52],
     [mkAlt [CIn [76]; CIn [69]; CIn [86]] (CIn [68]) [CNotIn [68; 69; 75; 80; 81; 82]]]);
  (* caspase 5 : (?<=[LW]EH)D *)
  ([99; 97; 115; 112; 97; 115; 101; 32; 53],
     [mkAlt [CIn [76; 87]; CIn [69]; CIn [72]] (CIn [68]) []]);
  (* caspase 6 : (?<=VE[HI])D(?=[^PEDQKR]) *)
  ([99; 97; 115; 112; 97; 115; 101; 32; 54],
     [mkAlt [CIn [86]; CIn [69]; CIn [72; 73]] (CIn [68]) [CNotIn [68; 69; 75; 80; 81; 82]]]);
  (* caspase 7 : (?<=DEV)D(?=[^PEDQKR]) *)
  ([99; 97; 115; 112; 97; 115; 101; 32; 55],
     [mkAlt [CIn [68]; CIn [69]; CIn [86]] (CIn [68]) [CNotIn [68; 69; 75; 80; 81; 82]]]);
  (* caspase 8 : (?<=[IL]ET)D(?=[^PEDQKR]) *)
  ([99; 97; 115; 112; 97; 115; 101; 32; 56],
     [mkAlt [CIn [73; 76]; CIn [69]; CIn [84]] (CIn [68]) [CNotIn [68; 69; 75; 80; 81; 82]]]);
  (* caspase 9 : (?<=LEH)D *)
  ([99; 97; 115; 112; 97; 115; 101; 32; 57],
     [mkAlt [CIn [76]; CIn [69]; CIn [72]] (CIn [68]) []]);
  (* caspase 10 : (?<=IEA)D *)
  ([99; 97; 115; 112; 97; 115; 101; 32; 49; 48],
     [mkAlt [CIn [73]; CIn [69]; CIn [65]] (CIn [68]) []]);
  (* chymotrypsin high specificity : ([FY](?=[^P]))|(W(?=[^MP])) *)
  ([99; 104; 121; 109; 111; 116; 114; 121; 112; 115; 105; 110; 32; 104; 105; 103; 104; 32; 115; 112; 101; 99; 105; 102; 105; 99; 105; 116; 121],
     [mkAlt [] (CIn [70; 89]) [CNotIn [80]];
      mkAlt [] (CIn [87]) [CNotIn [77; 80]]]);
  (* chymotrypsin low specificity : ([FLY](?=[^P]))|(W(?=[^MP]))|(M(?=[^PY]))|(H(?=[^DMPW])) *)
  ([99; 104; 121; 109; 111; 116; 114; 121; 112; 115; 105; 110; 32; 108; 111; 119; 32; 115; 112; 101; 99; 105; 102; 105; 99; 105; 116; 121],
     [mkAlt [] (CIn [70; 76; 89]) [CNotIn [80]];
      mkAlt [] (CIn [87]) [CNotIn [77; 80]];
      mkAlt [] (CIn [77]) [CNotIn [80; 89]];
      mkAlt [] (CIn [72]) [CNotIn [68; 77; 80; 87]]]);
  (* clostripain : R *)
  ([99; 108; 111; 115; 116; 114; 105; 112; 97; 105; 110],
     [mkAlt [] (CIn [82]) []]);
  (* cnbr : M *)
  ([99; 110; 98; 114],
     [mkAlt [] (CIn [77]) []]);
  (* enterokinase : (?<=[DE]{3})K *)
  ([101; 110; 116; 101; 114; 111; 107; 105; 110; 97; 115; 101],
     [mkAlt [CIn [68; 69]; CIn [68; 69]; CIn [68; 69]] (CIn [75]) []]);
  (* factor xa : (?<=[AFGILTVM][DE]G)R *)
  ([102; 97; 99; 116; 111; 114; 32; 120; 97],
     [mkAlt [CIn [65; 70; 71; 73; 76; 77; 84; 86]; CIn [68; 69]; CIn [71]] (CIn [82]) []]);
  (* formic acid : D *)
  ([102; 111; 114; 109; 105; 99; 32; 97; 99; 105; 100],
     [mkAlt [] (CIn [68]) []]);
  (* glutamyl endopeptidase : E *)
  ([103; 108; 117; 116; 97; 109; 121; 108; 32; 101; 110; 100; 111; 112; 101; 112; 116; 105; 100; 97; 115; 101],
     [mkAlt [] (CIn [69]) []]);
  (* granzyme b : (?<=IEP)D *)
  ([103; 114; 97; 110; 122; 121; 109; 101; 32; 98],
     [mkAlt [CIn [73]; CIn [69]; CIn [80]] (CIn [68]) []]);
  (* hydroxylamine : N(?=G) *)
  ([104; 121; 100; 114; 111; 120; 121; 108; 97; 109; 105; 110; 101],
     [mkAlt [] (CIn [78]) [CIn [71]]]);
  (* iodosobenzoic acid : W *)
  ([105; 111; 100; 111; 115; 111; 98; 101; 110; 122; 111; 105; 99; 32; 97; 99; 105; 100],
     [mkAlt [] (CIn [87]) []]);
  (* lysc : K *)
  ([108; 121; 115; 99],
     [mkAlt [] (CIn [75]) []]);
  (* lysn : \w(?=K) *)
  ([108; 121; 115; 110],
     [mkAlt [] (CWord) [CIn [75]]]);
  (* ntcb : \w(?=C) *)
  ([110; 116; 99; 98],
     [mkAlt [] (CWord) [CIn [67]]]);
  (* pepsin ph1.3 : ((?<=[^HKR][^P])[^R](?=[FL][^P]))|((?<=[^HKR][^P])[FL](?=\w[^P])) *)
  ([112; 101; 112; 115; 105; 110; 32; 112; 104; 49; 46; 51],
     [mkAlt [CNotIn [72; 75; 82]; CNotIn [80]] (CNotIn [82]) [CIn [70; 76]; CNotIn [80]];
      mkAlt [CNotIn [72; 75; 82]; CNotIn [80]] (CIn [70; 76]) [CWord; CNotIn [80]]]);
  (* pepsin ph2.0 : ((?<=[^HKR][^P])[^R](?=[FLWY][^P]))|((?<=[^HKR][^P])[FLWY](?=\w[^P])) *)
  ([112; 101; 112; 115; 105; 110; 32; 112; 104; 50; 46; 48],
     [mkAlt [CNotIn [72; 75; 82]; CNotIn [80]] (CNotIn [82]) [CIn [70; 76; 87; 89]; CNotIn [80]];
      mkAlt [CNotIn [72; 75; 82]; CNotIn [80]] (CIn [70; 76; 87; 89]) [CWord; CNotIn [80]]]);
  (* proline endopeptidase : (?<=[HKR])P(?=[^P]) *)
  ([112; 114; 111; 108; 105; 110; 101; 32; 101; 110; 100; 111; 112; 101; 112; 116; 105; 100; 97; 115; 101],
     [mkAlt [CIn [72; 75; 82]] (CIn [80]) [CNotIn [80]]]);
  (* proteinase k : [AEFILTVWY] *)
  ([112; 114; 111; 116; 101; 105; 110; 97; 115; 101; 32; 107],
     [mkAlt [] (CIn [65; 69; 70; 73; 76; 84; 86; 87; 89]) []]);
  (* staphylococcal peptidase i : (?<=[^E])E *)
  ([115; 116; 97; 112; 104; 121; 108; 111; 99; 111; 99; 99; 97; 108; 32; 112; 101; 112; 116; 105; 100; 97; 115; 101; 32; 105],
     [mkAlt [CNotIn [69]] (CIn [69]) []]);
  (* thermolysin : [^DE](?=[AFILMV]) *)
  ([116; 104; 101; 114; 109; 111; 108; 121; 115; 105; 110],
     [mkAlt [] (CNotIn [68; 69]) [CIn [65; 70; 73; 76; 77; 86]]]);
  (* thrombin : ((?<=G)R(?=G))|((?<=[AFGILTVM][AFGILTVWA]P)R(?=[^DE][^DE])) *)
  ([116; 104; 114; 111; 109; 98; 105; 110],
     [mkAlt [CIn [71]] (CIn [82]) [CIn [71]];
      mkAlt [CIn [65; 70; 71; 73; 76; 77; 84; 86]; CIn [65; 70; 71; 73; 76; 84; 86; 87]; CIn [80]] (CIn [82]) [CNotIn [68; 69]; CNotIn [68; 69]]]);
  (* trypsin : ([KR](?=[^P]))|((?<=W)K(?=P))|((?<=M)R(?=P)) *)
  ([116; 114; 121; 112; 115; 105; 110],
     [mkAlt [] (CIn [75; 82]) [CNotIn [80]];
      mkAlt [CIn [87]] (CIn [75]) [CIn [80]];
      mkAlt [CIn [77]] (CIn [82]) [CIn [80]]]);
  (* trypsin_exception : ((?<=[CD])K(?=D))|((?<=C)K(?=[HY]))|((?<=C)R(?=K))|((?<=R)R(?=[HR])) *)
  ([116; 114; 121; 112; 115; 105; 110; 95; 101; 120; 99; 101; 112; 116; 105; 111; 110],
     [mkAlt [CIn [67; 68]] (CIn [75]) [CIn [68]];
      mkAlt [CIn [67]] (CIn [75]) [CIn [72; 89]];
      mkAlt [CIn [67]] (CIn [82]) [CIn [75]];
      mkAlt [CIn [82]] (CIn [82]) [CIn [72; 82]]])
].

