(* C11 -- faithful (Level F) model of the coordinate arithmetic and sequence extraction of
   moPepGen/gtf/GenomicAnnotation.py, TranscriptAnnotationModel.py, GeneAnnotationModel.py.
   Definitions only; proofs are in Proofs/AnnoProofs.v.

   Conventions: genomic intervals are 0-based half-open (start, end) exactly as the
   FeatureLocation objects the parser builds (start = GTF column 4 - 1, end = column 5);
   `exon` lists are in the order of TranscriptAnnotationModel.exon after sort_records, i.e.
   ascending; strand is the integer the parser stores (1, -1, 0).  Python exceptions are
   constructors of `err`. *)
From MoPep Require Import Model.Base.
Open Scope Z_scope.

Inductive err :=
| EIntron     (* ValueError(ERROR_INDEX_IN_INTRON) *)
| ERange      (* ValueError: index not in the range of the transcript / gene / "Index out of range." *)
| EStrand     (* ValueError: "Don't know how to handle unstranded ..." / 'Strand must not be unknown.' *)
| EValue      (* any other ValueError (no exon, transcript not of this gene) *)
| EIndex      (* IndexError: self.exon[0] / self.cds[0] on an empty list *)
| EUnbound    (* UnboundLocalError: `return index` with neither strand arm taken *)
| EType.      (* TypeError: cds_start + None (CDS without frame on the plus strand) *)

Inductive res (A : Type) := Ok (a : A) | Err (e : err).
Arguments Ok {A} a.
Arguments Err {A} e.

Definition exon := (Z * Z)%type.

Definition exon_len (x : exon) : Z := snd x - fst x.

Fixpoint tx_len (ex : list exon) : Z :=
  match ex with [] => 0 | x :: t => exon_len x + tx_len t end.

(* ---- well-formedness: non-empty, 0 <= s0, every exon non-empty, strictly separated
        (at least one intronic base between consecutive exons), ascending ---- *)
Fixpoint wf_from (lo : Z) (ex : list exon) : bool :=
  match ex with
  | [] => true
  | (s, e) :: t => (lo <? s) && (s <? e) && wf_from e t
  end.

Definition wf (ex : list exon) : bool :=
  match ex with
  | [] => false
  | (s, e) :: t => (0 <=? s) && (s <? e) && wf_from e t
  end.

(* TranscriptAnnotationModel.is_exonic *)
Fixpoint exonic (ex : list exon) (g : Z) : bool :=
  match ex with
  | [] => false
  | (s, e) :: t => ((s <=? g) && (g <? e)) || exonic t g
  end.

Definition first_start (ex : list exon) : Z := fst (hd (0, 0) ex).
Definition last_end (ex : list exon) : Z := snd (last ex (0, 0)).

(* ---- TranscriptAnnotationModel.get_transcript_index : genomic -> transcript ---- *)

(* strand == 1 arm:  index = 0; for exon in self.exon: ...
   (source after fix c35675e: `exon.end <= index` continues, so the shared boundary of two book-ended
   exons reaches the next exon; a true intronic base is rejected by the next exon's `else`) *)
Fixpoint g2tx_plus (ex : list exon) (g index : Z) : res Z :=
  match ex with
  | [] => Ok index                                   (* loop exhausted without break *)
  | (s, e) :: t =>
      if e <=? g then g2tx_plus t g (index + (e - s))
      else if s <=? g then Ok (index + (g - s))      (* break *)
      else Err EIntron
  end.

(* the arm as it was written BEFORE the fix (finding C11-bookend-plus): a position equal to an exon end
   raised the intron error even when the next exon starts there *)
Fixpoint g2tx_plus_old (ex : list exon) (g index : Z) : res Z :=
  match ex with
  | [] => Ok index
  | (s, e) :: t =>
      if e <? g then g2tx_plus_old t g (index + (e - s))
      else if e =? g then Err EIntron
      else if s <=? g then Ok (index + (g - s))
      else Err EIntron
  end.

(* strand == -1 arm:  index = -1; for exon in reversed(self.exon): ...   (rex = reversed list) *)
Fixpoint g2tx_minus (rex : list exon) (g index : Z) : res Z :=
  match rex with
  | [] => Ok index
  | (s, e) :: t =>
      if s >=? g then
        let index' := index + (e - s) in
        if s =? g then Ok index' (* break *) else g2tx_minus t g index'
      else if e >? g then Ok (index + (e - g))       (* break *)
      else Err EIntron
  end.

Definition g2tx (strand : Z) (ex : list exon) (g : Z) : res Z :=
  match ex with
  | [] => Err EIndex                                  (* self.exon[0] *)
  | _ =>
      if (g <? first_start ex) || (g >=? last_end ex) then Err ERange
      else if strand =? 1 then g2tx_plus ex g 0
      else if strand =? -1 then g2tx_minus (rev ex) g (-1)
      else Err EUnbound
  end.

(* ---- GenomicAnnotation.coordinate_transcript_to_genomic : transcript -> genomic ---- *)

(* Both loops `return` from inside; a loop that finishes falls through to the final
   raise ValueError("Don't know how to handle unstranded transcript.").  A negative index
   satisfies `index < size` at the first exon visited and is NOT rejected. *)
Fixpoint tx2g_plus (ex : list exon) (i : Z) : res Z :=
  match ex with
  | [] => Err EStrand
  | (s, e) :: t =>
      let size := e - s in
      if i <? size then Ok (i + s) else tx2g_plus t (i - size)
  end.

Fixpoint tx2g_minus (rex : list exon) (i : Z) : res Z :=
  match rex with
  | [] => Err EStrand
  | (s, e) :: t =>
      let size := e - s in
      if i <? size then Ok (e - 1 - i) else tx2g_minus t (i - size)
  end.

Definition tx2g (strand : Z) (ex : list exon) (i : Z) : res Z :=
  if tx_len ex <? i then Err ERange
  else if strand =? 1 then tx2g_plus ex i
  else if strand =? -1 then tx2g_minus (rev ex) i
  else Err EStrand.

(* ---- gene <-> genomic ---- *)
Definition g2gene (strand gs ge g : Z) : res Z :=
  if negb ((gs <=? g) && (g <? ge)) then Err ERange
  else if strand =? 1 then Ok (g - gs)
  else if strand =? -1 then Ok (ge - 1 - g)
  else Err EStrand.

(* no range check in the code *)
Definition gene2g (strand gs ge i : Z) : res Z :=
  if strand =? 1 then Ok (gs + i)
  else if strand =? -1 then Ok (ge - 1 - i)
  else Err EStrand.

(* coordinate_gene_to_transcript: gene -> genomic, membership check, genomic -> transcript *)
Definition gene2tx (gstrand gs ge : Z) (member : bool) (tstrand : Z) (ex : list exon) (i : Z) : res Z :=
  match gene2g gstrand gs ge i with
  | Err e => Err e
  | Ok g => if member then g2tx tstrand ex g else Err EValue
  end.

(* ---- sequences ---- *)
Fixpoint assocZ (k : Z) (l : list (Z * Z)) : option Z :=
  match l with [] => None | (a, b) :: t => if a =? k then Some b else assocZ k t end.

(* bytes.translate with Bio's complement table: unknown bytes are kept *)
Definition comp (tbl : list (Z * Z)) (c : Z) : Z :=
  match assocZ c tbl with Some d => d | None => c end.

Definition revcomp (tbl : list (Z * Z)) (s : seq) : seq := map (comp tbl) (rev s).

(* chrom.seq[start:end] for 0 <= start *)
Definition exon_seq (chrom : seq) (x : exon) : seq := slice chrom (fst x) (snd x).

Definition concat_exons (chrom : seq) (ex : list exon) : seq :=
  flat_map (exon_seq chrom) ex.

(* the `seq` built by get_transcript_sequence before ORF inference *)
Definition tx_seq (tbl : list (Z * Z)) (strand : Z) (ex : list exon) (chrom : seq) : res seq :=
  match ex with
  | [] => Err EValue                                  (* "Transcript model has no exon" *)
  | _ => let s := concat_exons chrom ex in
         Ok (if strand =? -1 then revcomp tbl s else s)
  end.

(* GeneAnnotationModel.get_gene_sequence *)
Definition gene_seq (tbl : list (Z * Z)) (strand gs ge : Z) (chrom : seq) : res seq :=
  if strand =? 1 then Ok (slice chrom gs ge)
  else if strand =? -1 then Ok (revcomp tbl (slice chrom gs ge))
  else Err EStrand.

(* the strand-corrected genome base the property statement speaks about *)
Definition strand_base (tbl : list (Z * Z)) (strand : Z) (chrom : seq) (g : Z) : option Z :=
  match nthZ chrom g with
  | None => None
  | Some c => Some (if strand =? -1 then comp tbl c else c)
  end.

(* ---- CDS start / end, UTR split, Sec ---- *)
Record cds := mkCds { c_start : Z; c_end : Z; c_frame : option Z }.

Definition in_exon (p : Z) (x : exon) : bool := (fst x <=? p) && (p <? snd x).

(* strand == 1 arm of get_cds_start_index; c0 = self.cds[0] *)
Fixpoint cds_start_plus (ex : list exon) (c0s : Z) (acc : Z) : Z :=
  match ex with
  | [] => acc
  | x :: t =>
      if negb (in_exon c0s x) then cds_start_plus t c0s (acc + exon_len x)
      else acc + (c0s - fst x)
  end.

(* strand == -1 arm; cN = self.cds[-1], rex = reversed exons *)
Fixpoint cds_start_minus (rex : list exon) (cNe : Z) (acc : Z) : Z :=
  match rex with
  | [] => acc
  | x :: t =>
      if negb (cNe =? snd x) && negb (in_exon cNe x) then cds_start_minus t cNe (acc + exon_len x)
      else acc + (snd x - cNe)
  end.

Definition cds_start_index (strand : Z) (ex : list exon) (cs : list cds) : res Z :=
  if strand =? 1 then
    match cs with
    | [] => Err EIndex
    | c0 :: _ =>
        match c_frame c0 with
        | None => Err EType                         (* int + None *)
        | Some f => Ok (cds_start_plus ex (c_start c0) 0 + f)
        end
    end
  else if strand =? -1 then
    match rev cs with
    | [] => Err EIndex
    | cN :: _ =>
        let f := match c_frame cN with None => 0 | Some f => f end in   (* `frame or 0` *)
        Ok (cds_start_minus (rev ex) (c_end cN) 0 + f)
    end
  else Err EStrand.

(* FeatureLocation.__gt__ for two locations of the same strand *)
Definition loc_gt (a b : exon) : bool :=
  (fst a >? fst b) || ((fst a =? fst b) && (snd a >? snd b)).
Definition loc_eq (a b : exon) : bool := (fst a =? fst b) && (snd a =? snd b).
(* SeqFeature.__lt__ = not (== or >) *)
Definition loc_lt (a b : exon) : bool := negb (loc_eq a b || loc_gt a b).

(* split_utr: which UTR records go to three_utr *)
Definition is_five (strand : Z) (cs : list cds) (u : exon) : bool :=
  match cs with
  | [] => false
  | c0 :: _ =>
      let cN := last cs c0 in
      ((strand =? 1) && loc_lt u (c_start c0, c_end c0)) ||
      ((strand =? -1) && loc_gt u (c_start cN, c_end cN))
  end.

Definition three_utrs (strand : Z) (cs : list cds) (utr : list exon) : list exon :=
  filter (fun u => negb (is_five strand cs u)) utr.

(* first / last element of the sorted list = minimum / maximum under loc_gt *)
Fixpoint loc_min (d : exon) (l : list exon) : exon :=
  match l with [] => d | x :: t => loc_min (if loc_gt d x then x else d) t end.
Fixpoint loc_max (d : exon) (l : list exon) : exon :=
  match l with [] => d | x :: t => loc_max (if loc_gt x d then x else d) t end.

(* end - (end - start) % 3 ; Python % = Coq mod for a positive modulus *)
Definition frame_floor (e start : Z) : Z := e - (e - start) mod 3.

Definition cds_end_index (strand : Z) (ex : list exon) (three : list exon) (seqlen start : Z) : res Z :=
  match three with
  | [] => Ok (frame_floor seqlen start)
  | u :: t =>
      let r := if strand =? 1 then g2tx strand ex (fst (loc_min u t))
               else g2tx strand ex (snd (loc_max u t) - 1) in
      match r with
      | Ok e => Ok (frame_floor e start)
      | Err x => Err x
      end
  end.

(* one Selenocysteine record (start, end, strand of the record) -> transcript interval *)
Definition sec_loc (strand : Z) (ex : list exon) (sec : Z * Z * Z) : res (Z * Z) :=
  let '(s, e, sstrand) := sec in
  if sstrand =? 1 then
    match g2tx strand ex s with
    | Err x => Err x
    | Ok a => match g2tx strand ex (e - 1) with Err x => Err x | Ok b => Ok (a, b + 1) end
    end
  else
    match g2tx strand ex (e - 1) with
    | Err x => Err x
    | Ok a => match g2tx strand ex s with Err x => Err x | Ok b => Ok (a, b + 1) end
    end.

Fixpoint sec_locs (strand : Z) (ex : list exon) (secs : list (Z * Z * Z)) : res (list (Z * Z)) :=
  match secs with
  | [] => Ok []
  | x :: t =>
      match sec_loc strand ex x with
      | Err e => Err e
      | Ok p => match sec_locs strand ex t with Err e => Err e | Ok l => Ok (p :: l) end
      end
  end.

(* get_transcript_sequence as a whole: (sequence, orf option, sec list in record order) *)
Record txrec := mkTx { t_seq : seq; t_orf : option (Z * Z); t_sec : list (Z * Z) }.

Definition transcript_sequence (tbl : list (Z * Z)) (strand : Z) (ex : list exon) (cs : list cds)
           (utr : list exon) (secs : list (Z * Z * Z)) (chrom : seq) : res txrec :=
  match tx_seq tbl strand ex chrom with
  | Err e => Err e
  | Ok s =>
      let orf :=
        match cs with
        | [] => Ok None
        | _ =>
            match cds_start_index strand ex cs with
            | Err e => Err e
            | Ok st =>
                match cds_end_index strand ex (three_utrs strand cs utr) (zlen s) st with
                | Err e => Err e
                | Ok en => Ok (Some (st, en))
                end
            end
        end in
      match orf with
      | Err e => Err e
      | Ok o =>
          match sec_locs strand ex secs with
          | Err e => Err e
          | Ok l => Ok (mkTx s o l)
          end
      end
  end.

(* get_cdna_sequence: the CDS records concatenated in list (genomic) order, ORF start computed
   (its errors escape) BEFORE the single reverse complement of the whole concatenation; the attached
   reference location is [cds_start_index, cds_start_index + len) *)
Definition cds_segments (cs : list cds) : list exon := map (fun c => (c_start c, c_end c)) cs.

Definition cdna_sequence (tbl : list (Z * Z)) (strand : Z) (ex : list exon) (cs : list cds) (chrom : seq)
  : res (seq * Z) :=
  match cs with
  | [] => Err EValue                                  (* 'Transcript model has no cds' *)
  | _ =>
      let s := concat_exons chrom (cds_segments cs) in
      match cds_start_index strand ex cs with
      | Err e => Err e
      | Ok st => Ok (if strand =? -1 then revcomp tbl s else s, st)
      end
  end.
