(* Faithful model of moPepGen/aa/VariantPeptideIdentifier.py:
     parse_variant_peptide_id, the four __str__ methods,
     FusionVariantPeptideIdentifier.first_tx_id/second_tx_id,
     BaseVariantPeptideIdentifier.is_alternative_splicing
   and of VariantPeptideInfo.get_transcript_ids / is_fusion / is_circ_rna /
   is_splice_altering (moPepGen/aa/VariantPeptideLabel.py).
   Strings are lists of code points.  Definitions only. *)
From Coq Require Import Decimal DecimalPos DecimalZ.
From MoPep Require Import Model.Base Gen.HeaderCfg.
Open Scope Z_scope.

(* ---- small result type: Python exceptions become constructors ---- *)
Inductive err := EValue | EIndex | EKey | EType | ESource | EFuel.
Inductive res (A : Type) := Ok (a : A) | Err (e : err).
Arguments Ok {A} a.
Arguments Err {A} e.

Definition bind {A B} (r : res A) (f : A -> res B) : res B :=
  match r with Ok a => f a | Err e => Err e end.

Fixpoint mapM {A B} (f : A -> res B) (l : list A) : res (list B) :=
  match l with
  | [] => Ok []
  | x :: t => bind (f x) (fun y => bind (mapM f t) (fun ys => Ok (y :: ys)))
  end.

Definition err_code (e : err) : Z :=
  match e with EValue => 1 | EIndex => 2 | EKey => 3 | EType => 4 | ESource => 5 | EFuel => 6 end.

(* ---- string helpers ---- *)
Definition str := list Z.

(* Python s.split(c): always at least one piece *)
Fixpoint split_on (c : Z) (s : str) : list str :=
  match s with
  | [] => [[]]
  | x :: t =>
      let r := split_on c t in
      if x =? c then [] :: r
      else match r with h :: r' => (x :: h) :: r' | [] => [[x]] end
  end.

(* Python s.split(c, n) *)
Fixpoint split_n (c : Z) (s : str) (n : nat) {struct s} : list str :=
  match s with
  | [] => [[]]
  | x :: t =>
      match n with
      | O => [s]
      | S n' =>
          if x =? c then [] :: split_n c t n'
          else match split_n c t n with h :: r => (x :: h) :: r | [] => [[x]] end
      end
  end.

Fixpoint join (c : Z) (l : list str) : str :=
  match l with
  | [] => []
  | [x] => x
  | x :: t => x ++ c :: join c t
  end.

Fixpoint starts_with (p s : str) : bool :=
  match p, s with
  | [], _ => true
  | a :: p', b :: s' => (a =? b) && starts_with p' s'
  | _ :: _, [] => false
  end.

(* Python `sub in s` *)
Fixpoint contains (sub s : str) : bool :=
  starts_with sub s || match s with [] => false | _ :: t => contains sub t end.

Definition is_empty {A} (l : list A) : bool := match l with [] => true | _ => false end.

(* ---- characters and literal strings (code points) ---- *)
Definition c_bar : Z := 124.     (* | *)
Definition c_sp : Z := 32.
Definition c_dash : Z := 45.
Definition c_colon : Z := 58.
Definition c_plus : Z := 43.

Definition s_FUSION : str := [70;85;83;73;79;78].
Definition s_CI : str := [67;73].
Definition s_CIRC : str := [67;73;82;67].
Definition s_ORF : str := [79;82;70].
Definition s_1dash : str := [49;45].
Definition s_2dash : str := [50;45].
Definition s_SNV : str := [83;78;86].
Definition s_INDEL : str := [73;78;68;69;76].
Definition s_MNV : str := [77;78;86].
Definition s_RES : str := [82;69;83].
Definition s_SE : str := [83;69].
Definition s_RI : str := [82;73].
Definition s_A3SS : str := [65;51;83;83].
Definition s_A5SS : str := [65;53;83;83].
Definition s_MXE : str := [77;88;69].
Definition s_W2F : str := [87;50;70].
Definition s_SECT : str := [83;69;67;84].

(* VariantPrefix.alt_translation(), VariantPrefix.ctbv() and the list alt_splice_types of
   is_alternative_splicing are REGENERATED from the source (Gen/HeaderCfg.v) on every run *)
Definition alt_translation_prefixes : list str := cfg_alt_translation_prefixes.
Definition ctbv_prefixes : list str := cfg_ctbv_prefixes.
Definition alt_splice_types : list str := cfg_alt_splice_types.

Definition any_prefix (ps : list str) (s : str) : bool := existsb (fun p => starts_with p s) ps.

(* ---- int() and str(int) on the fragment: optional sign, ASCII digits ---- *)
Definition digit_of (c : Z) : option (uint -> uint) :=
  if c =? 48 then Some D0 else if c =? 49 then Some D1 else if c =? 50 then Some D2
  else if c =? 51 then Some D3 else if c =? 52 then Some D4 else if c =? 53 then Some D5
  else if c =? 54 then Some D6 else if c =? 55 then Some D7 else if c =? 56 then Some D8
  else if c =? 57 then Some D9 else None.

Fixpoint uint_of_str (s : str) : option uint :=
  match s with
  | [] => Some Nil
  | c :: t => match digit_of c, uint_of_str t with
              | Some d, Some u => Some (d u)
              | _, _ => None
              end
  end.

Fixpoint str_of_uint (u : uint) : str :=
  match u with
  | Nil => []
  | D0 u => 48 :: str_of_uint u | D1 u => 49 :: str_of_uint u | D2 u => 50 :: str_of_uint u
  | D3 u => 51 :: str_of_uint u | D4 u => 52 :: str_of_uint u | D5 u => 53 :: str_of_uint u
  | D6 u => 54 :: str_of_uint u | D7 u => 55 :: str_of_uint u | D8 u => 56 :: str_of_uint u
  | D9 u => 57 :: str_of_uint u
  end.

Definition digits_val (s : str) : option Z :=
  match s with
  | [] => None
  | _ => match uint_of_str s with Some u => Some (Z.of_uint u) | None => None end
  end.

(* int(s) : None models ValueError *)
Definition parse_int (s : str) : option Z :=
  match s with
  | c :: t =>
      if c =? c_dash then option_map Z.opp (digits_val t)
      else if c =? c_plus then digits_val t
      else digits_val s
  | [] => None
  end.

(* str(z) *)
Definition print_int (z : Z) : str :=
  match z with
  | Z0 => [48]
  | Zpos p => str_of_uint (Pos.to_uint p)
  | Zneg p => c_dash :: str_of_uint (Pos.to_uint p)
  end.

(* ---- identifiers ---- *)
Inductive kind := KBase | KNovel | KCirc | KFusion.

(* one record for the four identifier classes:
     KBase  : backbone = transcript_id, gene = gene_id, v1 = variant_ids
     KNovel : backbone = transcript_id, gene = gene_id, v1 = codon_reassigns
     KCirc  : backbone = circ_rna_id,  v1 = variant_ids
     KFusion: backbone = fusion_id, v1 = first_variants, v2 = second_variants, v0 = peptide_variants *)
Record ident := mkIdent {
  i_kind : kind;
  i_backbone : str;
  i_gene : option str;
  i_v1 : list str;
  i_v2 : list str;
  i_v0 : list str;
  i_orf : option str;
  i_index : option Z;
}.

(* state of the field loop (step 1) *)
Record pstate := mkP {
  p_type : option kind;          (* only KFusion / KCirc are set in the loop *)
  p_backbone : str;
  p_v1 : list str; p_v2 : list str; p_v0 : list str;
  p_any_var : bool;              (* `var_ids` dict is non-empty *)
  p_alt : list str;
  p_orf : option str;
}.

Definition p_init : pstate := mkP None [] [] [] [] false [] None.

Definition is_kfusion (k : option kind) : bool :=
  match k with Some KFusion => true | _ => false end.

(* one iteration of `for i, field in enumerate(fields)` *)
Definition field_step (first : bool) (st : pstate) (field : str) : res pstate :=
  if starts_with s_FUSION field then
    if negb first then Err EValue
    else match p_type st with
         | Some _ => Err EValue
         | None => Ok (mkP (Some KFusion) field (p_v1 st) (p_v2 st) (p_v0 st) (p_any_var st) (p_alt st) (p_orf st))
         end
  else if starts_with s_CI field || starts_with s_CIRC field then
    if negb first then Err EValue
    else match p_type st with
         | Some _ => Err EValue
         | None => Ok (mkP (Some KCirc) field (p_v1 st) (p_v2 st) (p_v0 st) (p_any_var st) (p_alt st) (p_orf st))
         end
  else if starts_with s_ORF field then
    Ok (mkP (p_type st) (p_backbone st) (p_v1 st) (p_v2 st) (p_v0 st) (p_any_var st) (p_alt st) (Some field))
  else if is_kfusion (p_type st) then
    if starts_with s_1dash field then
      Ok (mkP (p_type st) (p_backbone st) (p_v1 st ++ [skipn 2 field]) (p_v2 st) (p_v0 st) true (p_alt st) (p_orf st))
    else if starts_with s_2dash field then
      Ok (mkP (p_type st) (p_backbone st) (p_v1 st) (p_v2 st ++ [skipn 2 field]) (p_v0 st) true (p_alt st) (p_orf st))
    else
      Ok (mkP (p_type st) (p_backbone st) (p_v1 st) (p_v2 st) (p_v0 st ++ [field]) true (p_alt st) (p_orf st))
  else if any_prefix alt_translation_prefixes field then
    Ok (mkP (p_type st) (p_backbone st) (p_v1 st) (p_v2 st) (p_v0 st) (p_any_var st) (p_alt st ++ [field]) (p_orf st))
  else if any_prefix ctbv_prefixes field then
    Ok (mkP (p_type st) (p_backbone st) (p_v1 st ++ [field]) (p_v2 st) (p_v0 st) true (p_alt st) (p_orf st))
  else Ok st.

Fixpoint field_loop (first : bool) (st : pstate) (fields : list str) : res pstate :=
  match fields with
  | [] => Ok st
  | f :: t => bind (field_step first st f) (fun st' => field_loop false st' t)
  end.

(* fields[-1] popped when it is an int *)
Definition pop_index (fields : list str) : list str * option Z :=
  match rev fields with
  | [] => (fields, None)
  | l :: r => match parse_int l with
              | Some z => (rev r, Some z)
              | None => (fields, None)
              end
  end.

(* one space-separated entry of the header *)
Definition parse_entry (it : str) : res ident :=
  let (fields, index) := pop_index (split_on c_bar it) in
  bind (field_loop true p_init fields) (fun st =>
    match p_type st with
    | Some KFusion =>
        Ok (mkIdent KFusion (p_backbone st) None (p_v1 st) (p_v2 st) (p_v0 st) (p_orf st) index)
    | Some _ =>
        Ok (mkIdent KCirc (p_backbone st) None (p_v1 st ++ p_alt st) [] [] (p_orf st) index)
    | None =>
        match fields with
        | [] => Err EIndex                               (* fields[0] *)
        | f0 :: rest =>
            if negb (p_any_var st) && (match p_orf st with Some _ => true | None => false end) then
              Ok (mkIdent KNovel f0 (match rest with g :: _ => Some g | [] => None end)
                          (p_alt st) [] [] (p_orf st) index)
            else
              Ok (mkIdent KBase f0 None (p_v1 st ++ p_alt st) [] [] (p_orf st) index)
        end
    end).

(* parse_variant_peptide_id(label, ...) *)
Definition parse_label (label : str) : res (list ident) :=
  mapM parse_entry (split_on cfg_entry_delim label).

(* ---- __str__ ---- *)
Definition opt_field (o : option str) : list str :=
  match o with Some s => if is_empty s then [] else [s] | None => [] end.

Definition index_field (o : option Z) : list str :=
  match o with Some z => if z =? 0 then [] else [print_int z] | None => [] end.

Definition print_ident (i : ident) : str :=
  join c_bar
    (match i_kind i with
     | KBase | KNovel =>
         [i_backbone i] ++ opt_field (i_gene i) ++ i_v1 i ++ opt_field (i_orf i) ++ index_field (i_index i)
     | KCirc =>
         (* where `if self.orf_id: x.append(self.orf_id)` stands in __str__ is read from the source *)
         if cfg_circ_orf_first
         then [i_backbone i] ++ opt_field (i_orf i) ++ i_v1 i ++ index_field (i_index i)
         else [i_backbone i] ++ i_v1 i ++ opt_field (i_orf i) ++ index_field (i_index i)
     | KFusion =>
         let vs := map (fun x => s_1dash ++ x) (i_v1 i) ++ map (fun x => s_2dash ++ x) (i_v2 i) ++ i_v0 i in
         if cfg_fusion_orf_first
         then [i_backbone i] ++ opt_field (i_orf i) ++ vs ++ index_field (i_index i)
         else [i_backbone i] ++ vs ++ opt_field (i_orf i) ++ index_field (i_index i)
     end).

(* ---- facts consulted by filterFasta (all re-parse str(variant_id)) ---- *)

(* `_, first, _ = fusion_id.split('-')` then first.split(':')[0] *)
Definition fusion_tx_ids (fusion_id : str) : res (list str) :=
  match split_on c_dash fusion_id with
  | [_; a; b] =>
      Ok [hd [] (split_on c_colon a); hd [] (split_on c_colon b)]
  | _ => Err EValue
  end.

(* circ_rna_id.split('-', 2)[1] *)
Definition circ_tx_id (circ_id : str) : res (list str) :=
  match split_n c_dash circ_id 2 with
  | _ :: b :: _ => Ok [b]
  | _ => Err EIndex
  end.

Definition ident_tx_ids (i : ident) : res (list str) :=
  match i_kind i with
  | KCirc => circ_tx_id (i_backbone i)
  | KFusion => fusion_tx_ids (i_backbone i)
  | KBase | KNovel => Ok [i_backbone i]
  end.

(* one (type, variant id) test of BaseVariantPeptideIdentifier.is_alternative_splicing; WHICH test the
   source applies is read from the source on every run (Gen/HeaderCfg.v):
     0 : `y in x`                                  (substring; the tree before commit 07392a2)
     2 : x.startswith(f"{y}_") or f"-{y}_" in x     (type prefix of an rMATS id)
   anything else: never matches, and the obligation splice_test_is_spec of Props/C19.v fails *)
Definition c_us : Z := 95.       (* _ *)
Definition splice_match (y x : str) : bool :=
  if cfg_splice_test =? 0 then contains y x
  else if cfg_splice_test =? 2 then starts_with (y ++ [c_us]) x || contains (c_dash :: y ++ [c_us]) x
  else false.

(* any(any(<test> for y in alt_splice_types) for x in self.variant_ids) *)
Definition ident_is_alt_splicing (i : ident) : bool :=
  existsb (fun x => existsb (fun y => splice_match y x) alt_splice_types) (i_v1 i).

Definition is_kind (k : kind) (i : ident) : bool :=
  match k, i_kind i with
  | KBase, KBase | KNovel, KNovel | KCirc, KCirc | KFusion, KFusion => true
  | _, _ => false
  end.

(* first identifier of the re-parsed label: parse_variant_peptide_id(self.original_label, set())[0] *)
Definition reparse0 (label : str) : res ident :=
  bind (parse_label label) (fun l => match l with i :: _ => Ok i | [] => Err EIndex end).

