(* Faithful model of moPepGen/aa/VariantPeptidePool.py: VariantPeptidePool.filter (+ load),
   moPepGen/cli/filter_fasta.py: load_expression_table (dict, last row wins).
   Two layers:
     abstract  : a FASTA is a list of (sequence, list of entries); an entry is the record of
                 the facts `filter` consults (printed label, transcript ids, three kind flags);
     concrete  : headers are strings parsed with Model/Header.v.
   Definitions only. *)
From MoPep Require Import Model.Base Model.Rule Model.Digest Model.Header.
Open Scope Z_scope.

Record entry := mkEntry {
  e_label : str;            (* str(variant_id): what is written back *)
  e_txs : list str;         (* get_transcript_ids() *)
  e_fusion : bool;          (* is_fusion() *)
  e_circ : bool;            (* is_circ_rna() *)
  e_splice : bool;          (* is_splice_altering() *)
}.

Record opts := mkOpts {
  o_exprs : option (list (str * Z));   (* rows of the expression table in file order; None = no table *)
  o_cutoff : option Z;                 (* --quant-cutoff (same fixed-point scale as the table) *)
  o_coding : list str;                 (* coding transcripts *)
  o_kan : bool;                        (* --keep-all-noncoding *)
  o_kac : bool;                        (* --keep-all-coding *)
  o_keep_canon : bool;                 (* --keep-canonical *)
  o_deny : option (list seq);          (* --denylist sequences *)
  o_lo : option Z; o_hi : option Z;    (* --miscleavages lo:hi *)
  o_rule : rule; o_exc : option rule;  (* enzyme, and trypsin_exception iff enzyme == 'trypsin' *)
}.

(* dict built by load_expression_table: a later row overwrites an earlier one *)
Fixpoint assoc_first (k : str) (l : list (str * Z)) : option Z :=
  match l with
  | [] => None
  | (k', v) :: t => if eq_seq k k' then Some v else assoc_first k t
  end.
Definition expr_lookup (rows : list (str * Z)) (tx : str) : option Z := assoc_first tx (rev rows).

(* all(exprs[tx] >= cutoff for tx in tx_ids): short-circuit, KeyError, TypeError (cutoff None) *)
Fixpoint all_expr (rows : list (str * Z)) (cutoff : option Z) (txs : list str) : res bool :=
  match txs with
  | [] => Ok true
  | tx :: t =>
      match expr_lookup rows tx with
      | None => Err EKey
      | Some v =>
          match cutoff with
          | None => Err EType
          | Some c => if c <=? v then all_expr rows cutoff t else Ok false
          end
      end
  end.

Definition all_noncoding (o : opts) (e : entry) : bool :=
  negb (existsb (fun x => mem_seq x (o_coding o)) (e_txs e)).
Definition all_coding (o : opts) (e : entry) : bool :=
  forallb (fun x => mem_seq x (o_coding o)) (e_txs e).

(* (not entry.is_circ_rna()) and entry.get_transcript_ids()[0] in coding_transcripts *)
Definition is_canonical (o : opts) (e : entry) : res bool :=
  if e_circ e then Ok false
  else match e_txs e with
       | t0 :: _ => Ok (mem_seq t0 (o_coding o))
       | [] => Err EIndex
       end.

(* the per-entry decision, in the order of the source *)
Definition keep_entry (o : opts) (in_deny : bool) (e : entry) : res bool :=
  bind (is_canonical o e) (fun canon =>
    if in_deny && negb (o_keep_canon o && canon) then Ok false
    else if o_kan o && all_noncoding o e then Ok true
    else if o_kac o && all_coding o e then Ok true
    else match o_exprs o with
         | Some rows =>
             if e_fusion e || e_circ e || e_splice e then Ok true
             else all_expr rows (o_cutoff o) (e_txs e)
         | None => Ok true
         end).

Definition keep_b (o : opts) (in_deny : bool) (e : entry) : bool :=
  match keep_entry o in_deny e with Ok b => b | Err _ => false end.

Definition misc_count (o : opts) (s : seq) : Z := Z.of_nat (length (sites (o_rule o) (o_exc o) s)).

Definition misc_ok (o : opts) (s : seq) : bool :=
  match o_lo o, o_hi o with
  | None, None => true
  | lo, hi =>
      let n := misc_count o s in
      (match lo with Some a => a <=? n | None => true end) &&
      (match hi with Some b => n <=? b | None => true end)
  end.

Definition in_denylist (o : opts) (s : seq) : bool :=
  match o_deny o with Some l => mem_seq s l | None => false end.

Definition pep := (seq * list entry)%type.

(* keep list of one peptide: entries in order, each decided *)
Fixpoint keep_list (o : opts) (d : bool) (es : list entry) : res (list entry) :=
  match es with
  | [] => Ok []
  | e :: t => bind (keep_entry o d e) (fun b =>
              bind (keep_list o d t) (fun r => Ok (if b then e :: r else r)))
  end.

Definition filter_pep (o : opts) (p : pep) : res (option pep) :=
  if negb (misc_ok o (fst p)) then Ok None
  else bind (keep_list o (in_denylist o (fst p)) (snd p)) (fun k =>
       Ok (if is_empty k then None else Some (fst p, k))).

(* VariantPeptidePool.load: a set keyed by the sequence; an equal record added later is dropped *)
Fixpoint dedup {A} (l : list (seq * A)) : list (seq * A) :=
  match l with
  | [] => []
  | p :: t => p :: filter (fun q => negb (eq_seq (fst q) (fst p))) (dedup t)
  end.

Definition opt_list {A} (o : option A) : list A := match o with Some a => [a] | None => [] end.

Definition filter_pool (o : opts) (pool : list pep) : res (list pep) :=
  bind (mapM (filter_pep o) (dedup pool)) (fun rs => Ok (flat_map opt_list rs)).

(* error-free reading of the same function (used to characterise the output) *)
Definition pure_pep (o : opts) (p : pep) : list pep :=
  if misc_ok o (fst p) then
    let k := filter (keep_b o (in_denylist o (fst p))) (snd p) in
    if is_empty k then [] else [(fst p, k)]
  else [].
Definition pure_filter (o : opts) (pool : list pep) : list pep := flat_map (pure_pep o) (dedup pool).

(* ---- concrete layer: headers as strings ---- *)

(* facts about one parsed identifier, all obtained by re-parsing its printed form *)
Definition entry_facts (i : ident) : res entry :=
  let label := print_ident i in
  bind (reparse0 label) (fun j =>
  bind (ident_tx_ids j) (fun txs =>
    Ok (mkEntry label txs (is_kind KFusion j) (is_kind KCirc j)
                (is_kind KBase j && ident_is_alt_splicing j)))).

Fixpoint keep_list_c (o : opts) (d : bool) (ids : list ident) : res (list str) :=
  match ids with
  | [] => Ok []
  | i :: t => bind (entry_facts i) (fun e =>
              bind (keep_entry o d e) (fun b =>
              bind (keep_list_c o d t) (fun r => Ok (if b then e_label e :: r else r))))
  end.

Definition cpep := (seq * str)%type.     (* sequence, header line *)

Definition filter_pep_c (o : opts) (p : cpep) : res (option (seq * list str)) :=
  if negb (misc_ok o (fst p)) then Ok None
  else bind (parse_label (snd p)) (fun ids =>
       bind (keep_list_c o (in_denylist o (fst p)) ids) (fun k =>
       Ok (if is_empty k then None else Some (fst p, k)))).

(* per-peptide outcomes (the harness needs them individually: the implementation iterates a
   set, so WHICH peptide raises first is not observable, only that one does) *)
Definition filter_each_c (o : opts) (pool : list cpep) : list (res (option (seq * list str))) :=
  map (filter_pep_c o) (dedup pool).

Definition filter_pool_c (o : opts) (pool : list cpep) : res (list (seq * list str)) :=
  bind (mapM (filter_pep_c o) (dedup pool)) (fun rs => Ok (flat_map opt_list rs)).

(* ---- vocabulary of the property statements (no computation) ---- *)
Inductive sublist {A} : list A -> list A -> Prop :=
| sub_nil : forall l, sublist [] l
| sub_keep : forall x a b, sublist a b -> sublist (x :: a) (x :: b)
| sub_skip : forall x a b, sublist a b -> sublist a (x :: b).

(* every peptide of [small] occurs in [big] with the same sequence and its entries in order *)
Definition sub_pool {A} (small big : list (seq * list A)) : Prop :=
  forall s es, In (s, es) small -> exists es0, In (s, es0) big /\ sublist es es0.

Fixpoint nodup_seq {A} (l : list (seq * A)) : Prop :=
  match l with
  | [] => True
  | p :: t => (forall q, In q t -> eq_seq (fst q) (fst p) = false) /\ nodup_seq t
  end.

(* all(exprs[tx] >= cutoff) read declaratively *)
Definition expressed (o : opts) (e : entry) : Prop :=
  exists rows, o_exprs o = Some rows /\
    forall tx, In tx (e_txs e) ->
      exists v c, expr_lookup rows tx = Some v /\ o_cutoff o = Some c /\ c <= v.

(* the stated rule for one header entry of a peptide whose deny-list membership is [d] *)
Definition keep_rule (o : opts) (d : bool) (e : entry) : Prop :=
  (d = true -> o_keep_canon o = true /\ is_canonical o e = Ok true) /\
  ( (o_kan o = true /\ all_noncoding o e = true)
    \/ (o_kac o = true /\ all_coding o e = true)
    \/ o_exprs o = None
    \/ e_fusion e = true \/ e_circ e = true \/ e_splice e = true
    \/ expressed o e ).

Definition with_cutoff (o : opts) (c : option Z) : opts :=
  mkOpts (o_exprs o) c (o_coding o) (o_kan o) (o_kac o) (o_keep_canon o) (o_deny o) (o_lo o) (o_hi o) (o_rule o) (o_exc o).
Definition with_misc (o : opts) (lo hi : option Z) : opts :=
  mkOpts (o_exprs o) (o_cutoff o) (o_coding o) (o_kan o) (o_kac o) (o_keep_canon o) (o_deny o) lo hi (o_rule o) (o_exc o).

(* [lo2,hi2] lies within [lo1,hi1]; None = unbounded *)
Definition narrower (lo1 hi1 lo2 hi2 : option Z) : Prop :=
  (match lo1 with None => True | Some a => match lo2 with Some b => a <= b | None => False end end) /\
  (match hi1 with None => True | Some a => match hi2 with Some b => b <= a | None => False end end).
