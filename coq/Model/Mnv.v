(* C05 - merging adjacent variants into MNVs (--max-adjacent-as-mnv K):
   moPepGen/seqvar/VariantRecord.py  find_mnvs_from_adjacent_variants + create_mnv_from_adjacent   (definitions
   only; theorems in Proofs/MnvProofs.v, tie to the source in Proofs/Py2CoqMnvProofs.v, docs/py2coq.md target 27).

   A record is (start, end, ref, alt, type, id).  The code walks the position-sorted records of one transcript:

     for i, v_0 in enumerate(variants):                  v_0.type in {SNV, RNAEditingSite, INDEL}, else skipped
         type0 = class of v_0                             SNV and RNAEditingSite are one class, INDEL the other
         adjacent_combs = {0: [[i]]}                      level n = index lists of n + 1 records
         for k in range(1, K):                            level k from level k - 1 (stops at the first empty level)
             for comb in adjacent_combs[k - 1]:
                 i_t = comb[-1]; v_t = variants[i_t]      nothing to do when i_t is the last index
                 for j in range(i_t + 1, len(variants)):  `scan` below
                     type of v_j not in the map        -> skipped
                     v_j.start < v_t.end               -> skipped
                     v_j.start > v_t.end               -> the scan ENDS (break)
                     class of v_j == type0             -> comb + [j] joins level k
         every comb of the levels 1 .. K - 1, in that order: create_mnv_from_adjacent([variants[x] for x in comb])

   so what is emitted for record i is EVERY chain i = c_0 < c_1 < .. < c_n (1 <= n <= K - 1) of records of the class
   of record i in which each record starts where its predecessor ends -- all lengths 2 .. K, not only the maximal
   ones, and the tails of a chain are emitted again from their own first records (MnvProofs.chains_spec,
   not_only_maximal).  The `break` makes a step c_n -> c_{n+1} additionally require that no record of a known type
   between the two starts after the end of c_n; for records sorted by start that is automatic (step_of_sorted).

   The level dictionary is keyed by k and a key exists iff its level is non-empty, `.items()` yields the keys in
   insertion order = increasing k: the model keeps the levels as a function of k. *)
From Coq Require Import ZArith List Bool.
From MoPep Require Import Model.Base.
Import ListNotations.
Open Scope Z_scope.

Record mrec := mkM { m_start : Z; m_end : Z; m_ref : seq; m_alt : seq; m_ty : seq; m_id : seq }.

Definition s_SNV : seq := [83;78;86].
Definition s_RES : seq := [82;78;65;69;100;105;116;105;110;103;83;105;116;101].    (* RNAEditingSite *)
Definition s_INDEL : seq := [73;78;68;69;76].

(* compatible_type_map: SNV -> 'SNV', RNAEditingSite -> 'SNV', INDEL -> 'INDEL'; the two values as 0 / 1 *)
Definition compat_class (t : seq) : option Z :=
  if eq_seq t s_SNV then Some 0 else if eq_seq t s_RES then Some 0 else if eq_seq t s_INDEL then Some 1 else None.

Definition known_type (t : seq) : bool := match compat_class t with Some _ => true | None => false end.
Definition class_is (t : seq) (c0 : Z) : bool := match compat_class t with Some c => c =? c0 | None => false end.

(* ------------------------------------------------------------------ create_mnv_from_adjacent *)
(* what the merged record is made of: location, alleles and attrs['INDIVIDUAL_VARIANT_IDS'] (type 'MNV', id
   "MNV-<start>-<ref>-<alt>" and the seqname / GENE_ID / TRANSCRIPT_ID copied from the first record are outside) *)
Record mnv := mkMnv { n_start : Z; n_end : Z; n_ref : seq; n_alt : seq; n_ids : list seq }.

(* None: the empty list (IndexError of variants[-1]) *)
Definition create_mnv (l : list mrec) : option mnv :=
  match l with
  | [] => None
  | v :: _ => Some (mkMnv (m_start v) (m_end (last l v)) (flat_map m_ref l) (flat_map m_alt l) (map m_id l))
  end.

(* ------------------------------------------------------------------ find_mnvs_from_adjacent_variants *)
(* the j loop: rest = variants[j:], end_t = v_t.location.end *)
Fixpoint scan (c0 end_t : Z) (comb : list Z) (j : Z) (rest : list mrec) : list (list Z) :=
  match rest with
  | [] => []
  | v :: r =>
    if negb (known_type (m_ty v)) then scan c0 end_t comb (j + 1) r
    else if m_start v <? end_t then scan c0 end_t comb (j + 1) r
    else if m_start v >? end_t then []
    else if class_is (m_ty v) c0 then (comb ++ [j]) :: scan c0 end_t comb (j + 1) r
    else scan c0 end_t comb (j + 1) r
  end.

(* the body of `for comb in adjacent_combs[k - 1]` (comb is never empty and holds indices of vs) *)
Definition extend (vs : list mrec) (c0 : Z) (comb : list Z) : list (list Z) :=
  let i_t := last comb 0 in
  if i_t >=? zlen vs - 1 then []
  else match nthZ vs i_t with
       | Some v_t => scan c0 (m_end v_t) comb (i_t + 1) (skipn (Z.to_nat (i_t + 1)) vs)
       | None => []
       end.

(* adjacent_combs[n] *)
Fixpoint level (vs : list mrec) (c0 i : Z) (n : nat) : list (list Z) :=
  match n with O => [[i]] | S n' => flat_map (extend vs c0) (level vs c0 i n') end.

(* the combs of adjacent_combs.items() with k <> 0, for max_adjacent_as_mnv = K *)
Definition chains_from (vs : list mrec) (K i : Z) : list (list Z) :=
  match nthZ vs i with
  | Some v0 => match compat_class (m_ty v0) with
               | Some c0 => flat_map (fun n => level vs c0 i (S n)) (List.seq 0 (Z.to_nat (K - 1)))
               | None => []
               end
  | None => []
  end.

(* [variants[x] for x in comb] *)
Definition pick (vs : list mrec) (comb : list Z) : list mrec :=
  flat_map (fun x => match nthZ vs x with Some v => [v] | None => [] end) comb.

Definition all_chains (vs : list mrec) (K : Z) : list (list Z) :=
  flat_map (chains_from vs K) (range_from 0 (length vs)).

Definition find_mnvs (vs : list mrec) (K : Z) : list mnv :=
  flat_map (fun c => match create_mnv (pick vs c) with Some m => [m] | None => [] end) (all_chains vs K).
