(* C07 -- Level-F model of moPepGen/cli/call_variant_peptide.py:
     call_variant_peptides_wrapper   (per-unit try/except, success flags, denylist update after the
                                      main call, fusion loop, circRNA loop with its fall-through)
     call_variant_peptide            (the CLI loop: invalid series, tally, FASTA written at the end)
   Definitions only.  The three per-unit callers (graph engine) are abstract: a unit either raises or
   returns a peptide map that is its raw result minus the extra denylist it is handed.

   The model is parametric in a [shape] record that the translator harness/translate/wrapper_shape.py
   regenerates from the source on every run (Gen/WrapperShape.v).  [shape_fixed] is the shape after
   proposed_fixes/C07_D4.patch, [shape_orig] the shape of the unchanged tree (D4). *)
From MoPep Require Import Model.Base.
Open Scope Z_scope.

(* ------------------------------------------------------------------ peptide maps *)
Definition label := Z.
(* Dict[Seq, List[AnnotatedPeptideLabel]] in insertion order; a label is identified by its string,
   abstracted to a number *)
Definition pmap := list (seq * list label).

(* val = peptide_anno.setdefault(seq, {}); for metadata in seq_data: if label not in val: val[label] = .. *)
Fixpoint add_labels (ls : list label) (val : list label) : list label :=
  match ls with
  | [] => val
  | l :: r => add_labels r (if memZ l val then val else val ++ [l])
  end.

Fixpoint anno_add1 (s : seq) (ls : list label) (a : pmap) : pmap :=
  match a with
  | [] => [(s, add_labels ls [])]
  | (s', v) :: r => if eq_seq s s' then (s', add_labels ls v) :: r else (s', v) :: anno_add1 s ls r
  end.

(* add_peptide_anno(x) *)
Fixpoint add_peptide_anno (x : pmap) (a : pmap) : pmap :=
  match x with
  | [] => a
  | (s, ls) :: r => add_peptide_anno r (anno_add1 s ls a)
  end.

Definition keys (m : pmap) : list seq := map fst m.

(* ------------------------------------------------------------------ units *)
(* one call of call_peptide_main / call_peptide_fusion / call_peptide_circ_rna *)
Record unit_ := { u_id : Z; u_fail : bool; u_raw : pmap }.

(* the caller is handed the canonical denylist plus [extra]; u_raw is its result for extra = {} *)
Definition call_unit (u : unit_) (extra : list seq) : option pmap :=
  if u_fail u then None
  else Some (filter (fun p => negb (mem_seq (fst p) extra)) (u_raw u)).

Inductive exn := EUnit | EUnbound | EInvalid.
Inductive res (A : Type) := Ok (a : A) | Raise (e : exn).
Arguments Ok {A} a.
Arguments Raise {A} e.

(* ------------------------------------------------------------------ shape of the source *)
Record shape := {
  sh_main_flag : Z;        (* index of success_flags replaced by False in the main handler *)
  sh_fusion_flag : Z;
  sh_circ_flag : Z;
  sh_main_reraise : bool;  (* handler re-raises when skip_failed is false *)
  sh_fusion_reraise : bool;
  sh_circ_reraise : bool;
  sh_circ_cont : bool;     (* circRNA handler ends its skip_failed branch with `continue` *)
  sh_tally_keys : list Z;  (* counter (0 variant, 1 fusion, 2 circRNA) incremented for flags[0], [1], [2] *)
  sh_fasta_after_loop : bool; (* write_fasta is called once, after the transcript loop *)
  sh_invalid_guarded : bool;  (* invalid series: counted and skipped iff skip_failed, else re-raised *)
  sh_acc_guarded : bool       (* invalid series of a fusion's ACCEPTER transcript, loaded while gathering the
                                 donor: skipped iff skip_failed, else re-raised (false: always propagates) *)
}.

Definition shape_fixed : shape :=
  {| sh_main_flag := 0; sh_fusion_flag := 1; sh_circ_flag := 2;
     sh_main_reraise := true; sh_fusion_reraise := true; sh_circ_reraise := true;
     sh_circ_cont := true; sh_tally_keys := [0; 1; 2]; sh_fasta_after_loop := true;
     sh_invalid_guarded := true; sh_acc_guarded := true |}.

Definition shape_orig : shape :=
  {| sh_main_flag := 0; sh_fusion_flag := 1; sh_circ_flag := 2;
     sh_main_reraise := true; sh_fusion_reraise := true; sh_circ_reraise := true;
     sh_circ_cont := false; sh_tally_keys := [0; 1; 2]; sh_fasta_after_loop := true;
     sh_invalid_guarded := true; sh_acc_guarded := false |}.

Fixpoint eq_zlist (a b : list Z) : bool :=
  match a, b with
  | [], [] => true
  | x :: a', y :: b' => (x =? y) && eq_zlist a' b'
  | _, _ => false
  end.

Definition shape_eqb (a b : shape) : bool :=
  (sh_main_flag a =? sh_main_flag b) && (sh_fusion_flag a =? sh_fusion_flag b) &&
  (sh_circ_flag a =? sh_circ_flag b) &&
  Bool.eqb (sh_main_reraise a) (sh_main_reraise b) && Bool.eqb (sh_fusion_reraise a) (sh_fusion_reraise b) &&
  Bool.eqb (sh_circ_reraise a) (sh_circ_reraise b) && Bool.eqb (sh_circ_cont a) (sh_circ_cont b) &&
  eq_zlist (sh_tally_keys a) (sh_tally_keys b) &&
  Bool.eqb (sh_fasta_after_loop a) (sh_fasta_after_loop b) &&
  Bool.eqb (sh_invalid_guarded a) (sh_invalid_guarded b) &&
  Bool.eqb (sh_acc_guarded a) (sh_acc_guarded b).

(* the shapes this development has a model for: everything as in [shape_fixed] except that each of the two
   repairs (C07_D4.patch: sh_circ_cont, C07_acc_invalid.patch: sh_acc_guarded) may be present or absent *)
Definition shape_known (s : shape) : bool :=
  shape_eqb {| sh_main_flag := sh_main_flag s; sh_fusion_flag := sh_fusion_flag s; sh_circ_flag := sh_circ_flag s;
               sh_main_reraise := sh_main_reraise s; sh_fusion_reraise := sh_fusion_reraise s;
               sh_circ_reraise := sh_circ_reraise s; sh_circ_cont := true; sh_tally_keys := sh_tally_keys s;
               sh_fasta_after_loop := sh_fasta_after_loop s; sh_invalid_guarded := sh_invalid_guarded s;
               sh_acc_guarded := true |} shape_fixed.

(* ------------------------------------------------------------------ the wrapper *)
Definition flags3 := (bool * bool * bool)%type.

(* success_flags = (.., False, ..) at index k *)
Definition clear_flag (k : Z) (f : flags3) : flags3 :=
  match f with
  | (a, b, c) => if k =? 0 then (false, b, c) else if k =? 1 then (a, false, c)
                 else if k =? 2 then (a, b, false) else (a, b, c)
  end.

(* local variables of call_variant_peptides_wrapper that matter *)
Record wst := {
  w_anno : pmap;                     (* peptide_anno *)
  w_flags : flags3;                  (* success_flags *)
  w_main_peptides : option (list seq);
  w_pm : option pmap;                (* binding of `peptide_map` (and `pgraph`): None = unbound *)
  w_cg : option Z;                   (* binding of `cgraph`: the circRNA it was built for *)
  w_graphs : list (Z * Z)            (* dgraphs[2]: key -> circRNA whose graph is stored there *)
}.

Definition w0 : wst :=
  {| w_anno := []; w_flags := (true, true, true); w_main_peptides := None; w_pm := None;
     w_cg := None; w_graphs := [] |}.

(* if variant_series.transcriptional: try: (if ...: call_peptide_main ...) except: ... *)
Definition do_main (sh : shape) (skip : bool) (m : option unit_) (st : wst) : res wst :=
  match m with
  | None => Ok st
  | Some u =>
    match call_unit u [] with
    | Some r =>
      Ok {| w_anno := add_peptide_anno r (w_anno st); w_flags := w_flags st;
            w_main_peptides := Some (keys r); w_pm := Some r; w_cg := w_cg st; w_graphs := w_graphs st |}
    | None =>
      if skip then
        Ok {| w_anno := w_anno st; w_flags := clear_flag (sh_main_flag sh) (w_flags st);
              w_main_peptides := w_main_peptides st; w_pm := w_pm st; w_cg := w_cg st;
              w_graphs := w_graphs st |}
      else if sh_main_reraise sh then Raise EUnit else Ok st
    end
  end.

(* for variant in variant_series.fusion: try: ... except: ... *)
Fixpoint fusion_loop (sh : shape) (skip : bool) (fs : list unit_) (st : wst) : res wst :=
  match fs with
  | [] => Ok st
  | u :: r =>
    match call_unit u [] with
    | Some m =>
      fusion_loop sh skip r
        {| w_anno := add_peptide_anno m (w_anno st); w_flags := w_flags st;
           w_main_peptides := w_main_peptides st; w_pm := Some m; w_cg := w_cg st;
           w_graphs := w_graphs st |}
    | None =>
      if skip then
        fusion_loop sh skip r
          {| w_anno := w_anno st; w_flags := clear_flag (sh_fusion_flag sh) (w_flags st);
             w_main_peptides := w_main_peptides st; w_pm := w_pm st; w_cg := w_cg st;
             w_graphs := w_graphs st |}
      else if sh_fusion_reraise sh then Raise EUnit else fusion_loop sh skip r st
    end
  end.

(* if main_peptides: denylist.update(...)   -- the extra denylist the circRNA callers see *)
Definition extra_deny (st : wst) : list seq :=
  match w_main_peptides st with
  | Some (x :: l) => x :: l
  | _ => []
  end.

(* the three statements after the try/except of the circRNA loop:
     dgraphs[2][circ_model.id] = cgraph ; pgraphs[2][circ_model.id] = pgraph ; add_peptide_anno(peptide_map)
   reading an unbound local raises UnboundLocalError *)
Definition circ_post (c : unit_) (st : wst) : res wst :=
  match w_cg st with
  | None => Raise EUnbound
  | Some g =>
    match w_pm st with
    | None => Raise EUnbound
    | Some m =>
      Ok {| w_anno := add_peptide_anno m (w_anno st); w_flags := w_flags st;
            w_main_peptides := w_main_peptides st; w_pm := w_pm st; w_cg := w_cg st;
            w_graphs := w_graphs st ++ [(u_id c, g)] |}
    end
  end.

Fixpoint circ_loop (sh : shape) (skip : bool) (deny : list seq) (cs : list unit_) (st : wst) : res wst :=
  match cs with
  | [] => Ok st
  | c :: r =>
    match call_unit c deny with
    | Some m =>
      match circ_post c {| w_anno := w_anno st; w_flags := w_flags st;
                           w_main_peptides := w_main_peptides st; w_pm := Some m;
                           w_cg := Some (u_id c); w_graphs := w_graphs st |} with
      | Ok st' => circ_loop sh skip deny r st'
      | Raise e => Raise e
      end
    | None =>
      if skip then
        let st1 := {| w_anno := w_anno st; w_flags := clear_flag (sh_circ_flag sh) (w_flags st);
                      w_main_peptides := w_main_peptides st; w_pm := w_pm st; w_cg := w_cg st;
                      w_graphs := w_graphs st |} in
        if sh_circ_cont sh then circ_loop sh skip deny r st1
        else match circ_post c st1 with
             | Ok st' => circ_loop sh skip deny r st'
             | Raise e => Raise e
             end
      else if sh_circ_reraise sh then Raise EUnit
      else match circ_post c st with
           | Ok st' => circ_loop sh skip deny r st'
           | Raise e => Raise e
           end
    end
  end.

(* one transcript as gathered by gather_data_for_call_variant *)
Record txin := {
  t_id : Z;
  t_invalid : bool;            (* pool[tx_id] raises ValueError *)
  t_empty : bool;              (* empty series / canonical-only under --noncanonical-transcripts *)
  t_acc_invalid : bool;        (* pool[accepter of one of its fusions] raises ValueError while gathering *)
  t_main : option unit_;       (* None: no transcriptional variants, or the inner `if` is false *)
  t_fusions : list unit_;
  t_circs : list unit_
}.

Definition wrapper (sh : shape) (skip : bool) (t : txin) : res wst :=
  match do_main sh skip (t_main t) w0 with
  | Raise e => Raise e
  | Ok st1 =>
    match fusion_loop sh skip (t_fusions t) st1 with
    | Raise e => Raise e
    | Ok st2 => circ_loop sh skip (extra_deny st2) (t_circs t) st2
    end
  end.

(* ------------------------------------------------------------------ the CLI layer *)
Record tally := {
  n_total : Z; n_processed : Z; n_invalid : Z;
  f_variant : Z; f_fusion : Z; f_circ : Z;
  n_total_pep : Z; n_valid : Z
}.

Definition tally0 (total : Z) : tally :=
  {| n_total := total; n_processed := 0; n_invalid := 0; f_variant := 0; f_fusion := 0; f_circ := 0;
     n_total_pep := 0; n_valid := 0 |}.

(* caller.tally.n_transcripts_failed[key] += 1 *)
Definition bump (key : Z) (t : tally) : tally :=
  {| n_total := n_total t; n_processed := n_processed t; n_invalid := n_invalid t;
     f_variant := f_variant t + (if key =? 0 then 1 else 0);
     f_fusion := f_fusion t + (if key =? 1 then 1 else 0);
     f_circ := f_circ t + (if key =? 2 then 1 else 0);
     n_total_pep := n_total_pep t; n_valid := n_valid t |}.

Definition bump_if (failed : bool) (key : Z) (t : tally) : tally := if failed then bump key t else t.

(* if not success_flags[0]: ...['variant'] += 1 ; [1] ; [2]   with the keys the source uses *)
Definition count_flags (sh : shape) (f : flags3) (t : tally) : tally :=
  match f with
  | (a, b, c) =>
    bump_if (negb c) (nth 2 (sh_tally_keys sh) 99)
      (bump_if (negb b) (nth 1 (sh_tally_keys sh) 99)
         (bump_if (negb a) (nth 0 (sh_tally_keys sh) 99) t))
  end.

(* for peptide in peptide_anno: if is_valid: for seq_anno in ...: peptide_table.add_peptide(...)
   the table index maps a sequence to the labels added for it (FASTA header = the set of labels) *)
Fixpoint table_add (valid : seq -> bool) (a : pmap) (tb : pmap) : pmap :=
  match a with
  | [] => tb
  | (s, ls) :: r => table_add valid r (if valid s then anno_add1 s ls tb else tb)
  end.

Record cst := { c_table : pmap; c_tl : tally }.

Definition with_counts (t : tally) (dproc dinv dpep : Z) : tally :=
  {| n_total := n_total t; n_processed := n_processed t + dproc; n_invalid := n_invalid t + dinv;
     f_variant := f_variant t; f_fusion := f_fusion t; f_circ := f_circ t;
     n_total_pep := n_total_pep t + dpep; n_valid := n_valid t |}.

Fixpoint cli_loop (sh : shape) (valid : seq -> bool) (skip : bool) (txs : list txin) (st : cst) : res cst :=
  match txs with
  | [] => Ok st
  | t :: r =>
    if t_invalid t then
      (* gather_data_for_call_variant: except ValueError: if skip_failed: invalid += 1; return None; raise *)
      if sh_invalid_guarded sh then
        if skip then cli_loop sh valid skip r {| c_table := c_table st; c_tl := with_counts (c_tl st) 0 1 0 |}
        else Raise EInvalid
      else cli_loop sh valid skip r {| c_table := c_table st; c_tl := with_counts (c_tl st) 0 1 0 |}
    else if t_empty t then cli_loop sh valid skip r st
    else if t_acc_invalid t && negb (sh_acc_guarded sh && skip) then
      (* for add_tx in tx_ids: try: dummy_pool[add_tx] = pool[add_tx] except KeyError: continue
         [except ValueError: if skip_failed: continue; raise] *)
      Raise EInvalid
    else
      match wrapper sh skip t with
      | Raise e => Raise e
      | Ok w =>
        cli_loop sh valid skip r
          {| c_table := table_add valid (w_anno w) (c_table st);
             c_tl := count_flags sh (w_flags w) (with_counts (c_tl st) 1 0 (zlen (w_anno w))) |}
      end
  end.

(* what the command leaves behind: the exception it terminated with (exit status), the FASTA file
   (None: not written) and the logged summary *)
Record cres := { r_exc : option exn; r_fasta : option pmap; r_tally : option tally }.

Definition set_valid (t : tally) (n : Z) : tally :=
  {| n_total := n_total t; n_processed := n_processed t; n_invalid := n_invalid t;
     f_variant := f_variant t; f_fusion := f_fusion t; f_circ := f_circ t;
     n_total_pep := n_total_pep t; n_valid := n |}.

Definition run (sh : shape) (valid : seq -> bool) (skip : bool) (txs : list txin) : cres :=
  match cli_loop sh valid skip txs {| c_table := []; c_tl := tally0 (zlen txs) |} with
  | Ok st =>
    {| r_exc := None; r_fasta := Some (c_table st);
       r_tally := Some (set_valid (c_tl st) (zlen (c_table st))) |}
  | Raise e => {| r_exc := Some e; r_fasta := None; r_tally := None |}
  end.
