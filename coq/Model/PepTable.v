(* C04 - faithful (Level F) model of the output stores of the three callers.

     moPepGen/svgraph/VariantPeptideTable.py   write_header, is_valid, add_peptide, load_peptide, write_fasta
     moPepGen/svgraph/VariantPeptideDict.py    PeptideSegment.to_line ; MiscleavedNodes.is_valid_seq /
                                               VariantPeptideDict.is_valid_seq (the per-graph filter)
     moPepGen/aa/VariantPeptidePool.py         add_peptide (filter + label merge), write
     moPepGen/cli/call_variant_peptide.py      the loop  `for peptide in peptide_anno: if is_valid: for a: add_peptide`

   The table is a log-structured store: a TEXT file (here: list of code points; the model's domain is
   ASCII text without CR, where byte offsets = character offsets and universal-newline translation is the
   identity) to which add_peptide appends one line per segment, plus an in-memory insertion-ordered
   index  sequence -> [(start offset, end offset)]  taken from handle.tell().  write_fasta regenerates
   (sequence -> labels) by seeking/reading/parsing the text back (load_peptide).
   Definitions only; proofs are in Proofs/PepTableProofs.v. *)
From MoPep Require Import Model.Base Model.Digest.
Open Scope Z_scope.

Definition TAB : Z := 9.
Definition NL : Z := 10.
Definition SP : Z := 32.       (* VARIANT_PEPTIDE_SOURCE_DELIMITER *)
Definition DOT : Z := 46.
Definition HASH : Z := 35.

(* ------------------------------------------------------------------ text helpers *)

(* sep.join(fields) *)
Fixpoint join (sep : Z) (fs : list seq) : seq :=
  match fs with
  | [] => []
  | f :: r => match r with [] => f | _ => f ++ sep :: join sep r end
  end.

(* str.split(sep) for a one-character separator: never returns [] *)
Fixpoint split (sep : Z) (s : seq) : list seq :=
  match s with
  | [] => [[]]
  | c :: s' =>
      if c =? sep then [] :: split sep s'
      else match split sep s' with
           | f :: r => (c :: f) :: r
           | [] => [[c]]
           end
  end.

(* str.isspace() of one character (the set CPython's str.rstrip() strips) *)
Definition is_ws (c : Z) : bool :=
  ((9 <=? c) && (c <=? 13)) || ((28 <=? c) && (c <=? 32)) || (c =? 133) || (c =? 160) ||
  (c =? 5760) || ((8192 <=? c) && (c <=? 8202)) || (c =? 8232) || (c =? 8233) ||
  (c =? 8239) || (c =? 8287) || (c =? 12288).

(* str.rstrip() *)
Fixpoint rstrip (s : seq) : seq :=
  match s with
  | [] => []
  | c :: s' => match rstrip s' with
               | [] => if is_ws c then [] else [c]
               | r => c :: r
               end
  end.

(* str(int) *)
Fixpoint dec_pos (fuel : nat) (n : Z) (acc : seq) : seq :=
  match fuel with
  | O => acc
  | S f => let acc' := (48 + n mod 10) :: acc in
           if n <? 10 then acc' else dec_pos f (n / 10) acc'
  end.
Definition dec (z : Z) : seq :=
  if z <? 0 then 45 :: dec_pos (S (Z.to_nat (Z.log2 (- z)))) (- z) []
  else dec_pos (S (Z.to_nat (Z.log2 z))) z [].

(* Python slice s[a:b] with negative indices and clamping (step 1) *)
Definition norm_idx (n i : Z) : Z := if i <? 0 then Z.max 0 (i + n) else Z.min i n.
Definition py_slice {A} (s : list A) (a b : Z) : list A :=
  let n := Z.of_nat (length s) in
  let lo := norm_idx n a in
  let hi := norm_idx n b in
  firstn (Z.to_nat (hi - lo)) (skipn (Z.to_nat lo) s).

(* ------------------------------------------------------------------ PeptideSegment / AnnotatedPeptideLabel *)

(* FeatureLocation(start, end, start_offset, end_offset) *)
Record floc := mkLoc { l_start : Z; l_end : Z; l_so : Z; l_eo : Z }.

Record segment := mkSeg {
  sg_query : floc;
  sg_ref : option floc;
  sg_ftype : option seq;        (* None or '' print as '.' (`x or '.'`) *)
  sg_fid : option seq;
  sg_var : option seq;
}.

Definition or_dot (o : option seq) : seq :=
  match o with None => [DOT] | Some [] => [DOT] | Some s => s end.

(* PeptideSegment.to_line : the 9 tab-joined fields *)
Definition seg_fields (g : segment) : list seq :=
  [dec (l_start (sg_query g)); dec (l_end (sg_query g)); or_dot (sg_ftype g); or_dot (sg_fid g)] ++
  (match sg_ref g with
   | Some r =>
       (* `if self.ref:` - a FeatureLocation is a Bio SimpleLocation, whose truth value is its __len__
          (end - start): a zero-length reference location prints as '.' like a missing one *)
       if l_end r - l_start r =? 0 then [[DOT]; [DOT]]
       else [dec (l_start r * 3 + l_so r); dec (l_end r * 3 + l_eo r)]
   | None => [[DOT]; [DOT]]
   end) ++
  [dec (l_so (sg_query g)); dec (l_eo (sg_query g)); or_dot (sg_var g)].

Record anno := mkAnno { an_label : seq; an_segs : list segment }.

(* one table row as add_peptide writes it *)
Record row := mkRow { r_seq : seq; r_label : seq; r_sub : seq; r_seg : segment }.

Definition row_of (p : seq) (a : anno) (g : segment) : row :=
  mkRow p (an_label a) (py_slice p (l_start (sg_query g)) (l_end (sg_query g))) g.

(* f"{seq}\t{label}\t{subseq}\t{seg.to_line()}\n" *)
Definition render_row (r : row) : seq :=
  join TAB ([r_seq r; r_label r; r_sub r] ++ seg_fields (r_seg r)) ++ [NL].

Definition rows_of_add (p : seq) (a : anno) : list row := map (row_of p a) (an_segs a).
Definition block_text (p : seq) (a : anno) : seq := flat_map render_row (rows_of_add p a).

(* ------------------------------------------------------------------ the table *)

(* insertion-ordered dict with list values: `if k in d: d[k].append(v) else: d[k] = [v]` *)
Fixpoint assoc_add {V} (k : seq) (v : V) (m : list (seq * list V)) : list (seq * list V) :=
  match m with
  | [] => [(k, [v])]
  | (k', vs) :: m' => if eq_seq k k' then (k', vs ++ [v]) :: m' else (k', vs) :: assoc_add k v m'
  end.

Fixpoint assoc_get {V} (k : seq) (m : list (seq * V)) : option V :=
  match m with
  | [] => None
  | (k', v) :: m' => if eq_seq k k' then Some v else assoc_get k m'
  end.

Record table := mkTable { t_file : seq; t_index : list (seq * list (Z * Z)) }.

Definition table_header_fields : list seq := (* VARIANT_PEPTIDE_TABLE_HEADERS, as code points *)
  [ [115;101;113;117;101;110;99;101]; [104;101;97;100;101;114];
    [115;117;98;115;101;113;117;101;110;99;101]; [115;116;97;114;116]; [101;110;100];
    [102;101;97;116;117;114;101;95;116;121;112;101]; [102;101;97;116;117;114;101;95;105;100];
    [114;101;102;95;115;116;97;114;116]; [114;101;102;95;101;110;100];
    [115;116;97;114;116;95;111;102;102;115;101;116]; [101;110;100;95;111;102;102;115;101;116];
    [118;97;114;105;97;110;116] ].

(* VariantPeptideTable(handle) ; write_header() *)
Definition header_text : seq := HASH :: join TAB table_header_fields ++ [NL].
Definition empty_table : table := mkTable header_text [].

(* add_peptide: start = tell(); one line per segment; end = tell(); index[seq].append((start,end)) *)
Definition add_peptide (t : table) (p : seq) (a : anno) : table :=
  let start := Z.of_nat (length (t_file t)) in
  let file' := t_file t ++ block_text p a in
  let stop := Z.of_nat (length file') in
  mkTable file' (assoc_add p (start, stop) (t_index t)).

Inductive load_result :=
| LoadOk (labels : list seq)
| LoadKeyError                 (* self.index[seq] *)
| LoadValueError               (* "Peptide (..) do not match with table record" *)
| LoadIndexError.              (* fields[1] on a line without a tab *)

(* the inner `for line in buffer.rstrip().split('\n')` *)
Fixpoint load_lines (p : seq) (lines : list seq) (labels : list seq) : load_result :=
  match lines with
  | [] => LoadOk labels
  | ln :: rest =>
      match split TAB ln with
      | f0 :: fs =>
          if eq_seq p f0 then
            match fs with
            | f1 :: _ => load_lines p rest (labels ++ [f1])
            | [] => LoadIndexError
            end
          else LoadValueError
      | [] => LoadValueError       (* unreachable: split never returns [] *)
      end
  end.

(* the outer `for start, end in self.index[seq]` : seek(start); read(end - start) *)
Fixpoint load_blocks (file p : seq) (offs : list (Z * Z)) (labels : list seq) : load_result :=
  match offs with
  | [] => LoadOk labels
  | (s, e) :: rest =>
      let buffer := firstn (Z.to_nat (e - s)) (skipn (Z.to_nat s) file) in
      match load_lines p (split NL (rstrip buffer)) labels with
      | LoadOk labels' => load_blocks file p rest labels'
      | err => err
      end
  end.

(* `labels = set()` : the model keeps first-insertion order; the iteration order of a Python set of
   str is a function of PYTHONHASHSEED and is outside the model (compared as sets) *)
Fixpoint dedup (l : list seq) : list seq :=
  match l with
  | [] => []
  | x :: r => x :: filter (fun y => negb (eq_seq x y)) (dedup r)
  end.

Definition load_peptide (t : table) (p : seq) : load_result :=
  match assoc_get p (t_index t) with
  | None => LoadKeyError
  | Some offs =>
      match load_blocks (t_file t) p offs [] with
      | LoadOk labels => LoadOk (dedup labels)
      | err => err
      end
  end.

(* write_fasta: `for seq in self.index: peptide = self.load_peptide(seq); write_record` *)
Inductive fasta_result :=
| FastaOk (records : list (seq * list seq))       (* (sequence, header entries) in file order *)
| FastaErr (e : load_result).

Fixpoint write_fasta_keys (t : table) (keys : list seq) (acc : list (seq * list seq)) : fasta_result :=
  match keys with
  | [] => FastaOk acc
  | p :: rest =>
      match load_peptide t p with
      | LoadOk labels => write_fasta_keys t rest (acc ++ [(p, labels)])
      | err => FastaErr err
      end
  end.

Definition write_fasta (t : table) : fasta_result := write_fasta_keys t (map fst (t_index t)) [].

Definition run_adds (ops : list (seq * anno)) : table :=
  fold_left (fun t op => add_peptide t (fst op) (snd op)) ops empty_table.

(* ------------------------------------------------------------------ the filters *)

Section Filters.
  Variable wt : weight_table.
  Variable water : Z.

  (* VariantPeptideTable.is_valid and the `if not skip_checking` part of VariantPeptidePool.add_peptide.
     Order of tests as in the code: mass (SeqUtils.molecular_weight raises ValueError on a letter that is
     not in the table -> None), length, membership.  Note `< min_mw` rejects, i.e. mass >= min_mw passes. *)
  Definition is_valid (pool : list seq) (lim : limits) (p : seq) : option bool :=
    if negb (valid_letters wt p) then None
    else if mass4 wt water p <? lim_min_mw4 lim then Some false
    else if (Z.of_nat (length p) <? lim_min_len lim) || (lim_max_len lim <? Z.of_nat (length p)) then Some false
    else if mem_seq p pool then Some false
    else Some true.

  Definition pool_check (pool : list seq) (lim : limits) (p : seq) : option bool :=
    if negb (valid_letters wt p) then None
    else if mass4 wt water p <? lim_min_mw4 lim then Some false
    else if (Z.of_nat (length p) <? lim_min_len lim) || (lim_max_len lim <? Z.of_nat (length p)) then Some false
    else if mem_seq p pool then Some false
    else Some true.

  (* MiscleavedNodes.is_valid_seq / VariantPeptideDict.is_valid_seq (per-graph filter):
       if seq in <already accepted>: return True
       return size ok and seq not in denylist and 'X' not in seq and molecular_weight(seq) >= min_mw
     (`and` short-circuits: the mass - which may raise - is only computed when the others hold) *)
  Definition graph_valid (accepted deny : list seq) (lim : limits) (p : seq) : option bool :=
    if mem_seq p accepted then Some true
    else if negb ((lim_min_len lim <=? Z.of_nat (length p)) && (Z.of_nat (length p) <=? lim_max_len lim)) then Some false
    else if mem_seq p deny then Some false
    else if memZ X_code p then Some false
    else if negb (valid_letters wt p) then None
    else Some (lim_min_mw4 lim <=? mass4 wt water p).

  (* ---- the callVariant loop body over one transcript's result:
         for peptide in peptide_anno: if is_valid(peptide): for a in peptide_anno[peptide]: add_peptide *)
  Definition process_item (pool : list seq) (lim : limits) (t : table) (it : seq * list anno) : option table :=
    match is_valid pool lim (fst it) with
    | None => None                                   (* ValueError propagates: the run aborts *)
    | Some false => Some t
    | Some true => Some (fold_left (fun t a => add_peptide t (fst it) a) (snd it) t)
    end.

  Fixpoint process_items (pool : list seq) (lim : limits) (t : table) (its : list (seq * list anno)) : option table :=
    match its with
    | [] => Some t
    | it :: rest => match process_item pool lim t it with
                    | None => None
                    | Some t' => process_items pool lim t' rest
                    end
    end.

  (* the add operations that the loop performs, as a flat list *)
  Fixpoint accepted_ops (pool : list seq) (lim : limits) (its : list (seq * list anno)) : list (seq * anno) :=
    match its with
    | [] => []
    | it :: rest =>
        (match is_valid pool lim (fst it) with
         | Some true => map (fun a => (fst it, a)) (snd it)
         | _ => []
         end) ++ accepted_ops pool lim rest
    end.

  (* ---- VariantPeptidePool (callNovelORF / callAltTranslation) ----
     self.peptides is a set of records hashed/compared by sequence; the model keeps insertion order.
     An existing record's description gets  ' ' + new_label  appended (no de-duplication). *)
  Definition vpool := list (seq * seq).        (* (sequence, description) *)

  Fixpoint vpool_merge (p label : seq) (vp : vpool) : vpool :=
    match vp with
    | [] => [(p, label)]
    | (q, d) :: vp' => if eq_seq p q then (q, d ++ SP :: label) :: vp' else (q, d) :: vpool_merge p label vp'
    end.

  (* returns (new pool, return value) ; None = ValueError from molecular_weight *)
  Definition vpool_add (pool : list seq) (lim : limits) (skip : bool) (vp : vpool) (p label : seq)
    : option (vpool * bool) :=
    if skip then Some (vpool_merge p label vp, true)
    else match pool_check pool lim p with
         | None => None
         | Some false => Some (vp, false)
         | Some true => Some (vpool_merge p label vp, true)
         end.

  Fixpoint vpool_adds (pool : list seq) (lim : limits) (vp : vpool) (ops : list (seq * seq)) : option vpool :=
    match ops with
    | [] => Some vp
    | (p, l) :: rest => match vpool_add pool lim false vp p l with
                        | None => None
                        | Some (vp', _) => vpool_adds pool lim vp' rest
                        end
    end.

  (* ---- the verified decider used on the outputs of the three commands (Level S part) ----
     flags of one written peptide: [in canonical pool; too short; too long; mass below minimum or not
     computable; contains X; contains *] *)
  Definition hygiene_flags (pool : list seq) (lim : limits) (p : seq) : list bool :=
    [ mem_seq p pool;
      Z.of_nat (length p) <? lim_min_len lim;
      lim_max_len lim <? Z.of_nat (length p);
      negb (valid_letters wt p) || (mass4 wt water p <? lim_min_mw4 lim);
      memZ X_code p;
      memZ STAR_code p ].

  Definition peptide_ok (pool : list seq) (lim : limits) (p : seq) : bool :=
    negb (existsb (fun b => b) (hygiene_flags pool lim p)).

  Fixpoint nodup_seqs (l : list seq) : bool :=
    match l with [] => true | x :: r => negb (mem_seq x r) && nodup_seqs r end.

  Definition hygiene_ok (pool : list seq) (lim : limits) (fasta : list seq) : bool :=
    forallb (peptide_ok pool lim) fasta && nodup_seqs fasta.
End Filters.

(* ---- abstract view: the insertion-ordered multimap  sequence -> annotations  ---- *)
Definition amap := list (seq * list anno).
Definition amap_of (ops : list (seq * anno)) : amap :=
  fold_left (fun m op => assoc_add (fst op) (snd op) m) ops [].
Definition fasta_of_amap (m : amap) : list (seq * list seq) :=
  map (fun kv => (fst kv, dedup (map an_label (snd kv)))) m.

(* all rows the add sequence writes, in file order *)
Definition rows_of_ops (ops : list (seq * anno)) : list row :=
  flat_map (fun op => rows_of_add (fst op) (snd op)) ops.
