(* Faithful model (Level F) of moPepGen/cli/call_variant_peptide.py:caller_reducer -- the loop that
   re-runs one transcript with other complexity limits after a TimeoutError.  Definitions only.

     max_variants_per_node, additional_variants_per_misc : the CLI tuples (nargs='+', never empty)
     p.max_variants_per_node, p.additional_variants_per_misc : the limits of the current attempt
     on TimeoutError:
        mvs = mvs[1:] ; if mvs == (): mvs = (p.mv - 1,) ; if mvs[0] <= 0: raise ValueError
        avs = avs[1:] ; if avs == (): avs = (0,)
        p.mv = mvs[0] ; p.av = avs[0]                                                            *)
From MoPep Require Import Model.Base.
Open Scope Z_scope.

Record rstate := mkR { r_mvs : list Z; r_avs : list Z; r_mv : Z; r_av : Z }.

Inductive rstep := Retry (s : rstate) | Fail.          (* Fail = ValueError("Failed to finish transcript") *)

Definition hdz (l : list Z) : Z := match l with x :: _ => x | [] => 0 end.

Definition on_timeout (s : rstate) : rstep :=
  let mvs1 := tl (r_mvs s) in
  let exhausted := match mvs1 with [] => true | _ => false end in
  let mvs2 := if exhausted then [r_mv s - 1] else mvs1 in
  if exhausted && (hdz mvs2 <=? 0) then Fail
  else
    let avs1 := tl (r_avs s) in
    let avs2 := match avs1 with [] => [0] | _ => avs1 end in
    Retry (mkR mvs2 avs2 (hdz mvs2) (hdz avs2)).

(* dispatch as built by gather_data_for_call_variant: cleavage_params carries the FIRST element of each tuple *)
Definition rinit (mvs avs : list Z) : rstate := mkR mvs avs (hdz mvs) (hdz avs).

(* the limits of the attempts when the first n attempts time out: (list of (mv, av) tried, failed?) *)
Fixpoint attempts (n : nat) (s : rstate) : list (Z * Z) * bool :=
  match n with
  | O => ([(r_mv s, r_av s)], false)
  | S n' =>
      match on_timeout s with
      | Fail => ([(r_mv s, r_av s)], true)
      | Retry s' => let r := attempts n' s' in ((r_mv s, r_av s) :: fst r, snd r)
      end
  end.

(* a limit value: negative = disabled (unlimited).  a is at least as tight as b *)
Definition tighter (a b : Z) : bool := (b <? 0) || ((0 <=? a) && (a <=? b)).

Fixpoint nonincreasing (l : list Z) : bool :=
  match l with
  | a :: ((b :: _) as l') => tighter b a && nonincreasing l'
  | _ => true
  end.

Fixpoint pairs_tighten (l : list (Z * Z)) : bool :=
  match l with
  | (m1, a1) :: (((m2, a2) :: _) as l') => tighter m2 m1 && tighter a2 a1 && pairs_tighten l'
  | _ => true
  end.
