(* C04 - a small expression language for the validity filters, so that the tests of
   VariantPeptideTable.is_valid and VariantPeptidePool.add_peptide can be REGENERATED from the source
   (harness/translate/pepfilter.py -> Gen/PepFilter.v) and compared with the model on every run.
   A filter is a list of conditions, read as   `if c1: return False ... if cn: return False ; return True`.
   Evaluation follows Python: left to right, `or`/`and` short-circuit, and SeqUtils.molecular_weight raises
   (None) on a letter without a mass at the moment it is evaluated.  Definitions only. *)
From MoPep Require Import Model.Base Model.Digest.
Open Scope Z_scope.

Inductive fcmp := CLt | CLe | CGt | CGe | CEq | CNe.
Inductive fexp := EMass | ELen | EMinMw | EMinLen | EMaxLen | EConst (z : Z) | EAdd (a b : fexp) | ESub (a b : fexp).
Inductive fcond :=
| FCmp (a : fexp) (c : fcmp) (b : fexp)
| FOr (x y : fcond) | FAnd (x y : fcond) | FNot (x : fcond)
| FInPool | FNotInPool
| FBad.                                   (* a construct the translator does not understand *)

Definition cmp_eval (c : fcmp) (a b : Z) : bool :=
  match c with
  | CLt => a <? b | CLe => a <=? b | CGt => b <? a | CGe => b <=? a
  | CEq => a =? b | CNe => negb (a =? b)
  end.

Section Eval.
  Variable wt : weight_table.
  Variable water : Z.
  Variable pool : list seq.
  Variable lim : limits.
  Variable p : seq.

  Fixpoint eval_exp (e : fexp) : option Z :=
    match e with
    | EMass => if valid_letters wt p then Some (mass4 wt water p) else None
    | ELen => Some (Z.of_nat (length p))
    | EMinMw => Some (lim_min_mw4 lim)
    | EMinLen => Some (lim_min_len lim)
    | EMaxLen => Some (lim_max_len lim)
    | EConst z => Some z
    | EAdd a b => match eval_exp a, eval_exp b with Some x, Some y => Some (x + y) | _, _ => None end
    | ESub a b => match eval_exp a, eval_exp b with Some x, Some y => Some (x - y) | _, _ => None end
    end.

  (* None = an exception propagates; FBad has no meaning: it evaluates to None as well and is rejected
     separately by filter_known *)
  Fixpoint eval_cond (c : fcond) : option bool :=
    match c with
    | FCmp a k b => match eval_exp a with
                    | None => None
                    | Some x => match eval_exp b with None => None | Some y => Some (cmp_eval k x y) end
                    end
    | FOr x y => match eval_cond x with
                 | Some true => Some true
                 | Some false => eval_cond y
                 | None => None
                 end
    | FAnd x y => match eval_cond x with
                  | Some false => Some false
                  | Some true => eval_cond y
                  | None => None
                  end
    | FNot x => match eval_cond x with Some b => Some (negb b) | None => None end
    | FInPool => Some (mem_seq p pool)
    | FNotInPool => Some (negb (mem_seq p pool))
    | FBad => None
    end.

  Fixpoint run_filter (prog : list fcond) : option bool :=
    match prog with
    | [] => Some true
    | c :: rest => match eval_cond c with
                   | None => None
                   | Some true => Some false
                   | Some false => run_filter rest
                   end
    end.
End Eval.

Fixpoint cond_known (c : fcond) : bool :=
  match c with
  | FBad => false
  | FOr x y | FAnd x y => cond_known x && cond_known y
  | FNot x => cond_known x
  | _ => true
  end.
Definition filter_known (prog : list fcond) : bool := forallb cond_known prog.

(* the filter the hand-written model Model/PepTable.is_valid implements *)
Definition reference_filter : list fcond :=
  [ FCmp EMass CLt EMinMw;
    FOr (FCmp ELen CLt EMinLen) (FCmp ELen CGt EMaxLen);
    FInPool ].
