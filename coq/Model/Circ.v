(* Faithful model (Level F) of
     moPepGen/parser/CIRCexplorerParser.py : convert_to_circ_rna, is_valid (CIRCexplorer 2 and 3)
     moPepGen/gtf/GenomicAnnotation.py : find_exon_index, find_intron_index,
         feature_coordinate_gene_to_genomic, coordinate_gene_to_genomic
     moPepGen/circ/CircRNA.py : get_circ_rna_sequence, to_string (POS / OFFSET / LENGTH), id
     moPepGen/cli/parse_circexplorer.py : the record loop and its tally
   plus the declarative notions of the C17 theorems.  Definitions only.
   Reuses gene / g2gene / gene_of / revcomp from Model/Vep.v. *)
From MoPep Require Import Model.Base Model.Vep.
Open Scope Z_scope.

Inductive cres (A : Type) : Type :=
| COk (a : A)
| CErrValue        (* ValueError: block outside the gene, unsupported circ type, end < start *)
| CErrExon         (* err.ExonNotFoundError *)
| CErrIntron       (* err.IntronNotFoundError *)
| CErrIndex.       (* IndexError: fewer offsets than sizes *)
Arguments COk {A} a.
Arguments CErrValue {A}.
Arguments CErrExon {A}.
Arguments CErrIntron {A}.
Arguments CErrIndex {A}.

Definition cbind {A B} (r : cres A) (f : A -> cres B) : cres B :=
  match r with
  | COk a => f a
  | CErrValue => CErrValue | CErrExon => CErrExon | CErrIntron => CErrIntron | CErrIndex => CErrIndex
  end.
Definition of_res {A} (r : res A) : cres A :=
  match r with Ok a => COk a | ErrIndex => CErrIndex | _ => CErrValue end.

(* annotation seen by one record: the gene and the exons of record.isoform_name (ascending genomic) *)
Record canno := mkCanno { ca_gene : gene; ca_exons : list (Z * Z) }.

(* a CIRCexplorer row: start/end (0-based, end exclusive), exonSizes, exonOffsets, readNumber,
   circType (0 = circRNA, 1 = ciRNA, anything else = unsupported), and for CIRCexplorer3
   FPBcirc and circscore (decimal numbers scaled by 1000) *)
Record cerec := mkCerec { ce_start : Z; ce_end : Z; ce_sizes : list Z; ce_offsets : list Z;
                          ce_reads : Z; ce_type : Z; ce_fpb : Z; ce_score : Z }.

(* the emitted CircRNAModel: fragments (gene coordinates, in block order), the intron list,
   and the two numbers of the id  CIRC-<tx>-<id_start>:<id_end> *)
Record circ := mkCirc { ci_frags : list (Z * Z); ci_intron : list Z; ci_id_start : Z; ci_id_end : Z }.

(* GenomicAnnotation.coordinate_gene_to_genomic (no range check) *)
Definition gene2g (g : gene) (i : Z) : Z :=
  if g_strand g =? 1 then g_start g + i else g_end g - 1 - i.

(* feature_coordinate_gene_to_genomic on a (start, end) location *)
Definition frag_to_genomic (g : gene) (f : Z * Z) : Z * Z :=
  let s := gene2g g (fst f) in
  let e := gene2g g (snd f - 1) in
  if g_strand g =? -1 then (e, s + 1) else (s, e + 1).

(* FeatureLocation comparisons at equal strand *)
Definition loc_eq (a b : Z * Z) : bool := (fst a =? fst b) && (snd a =? snd b).
Definition loc_gt (a b : Z * Z) : bool := (fst a >? fst b) || ((fst a =? fst b) && (snd a >? snd b)).
Definition loc_lt (a b : Z * Z) : bool := negb (loc_gt a b || loc_eq a b).

(* find_exon_index: plus strand over exons, minus strand over reversed(exons) *)
Fixpoint fei_plus (exs : list (Z * Z)) (f : Z * Z) (i : Z) : option Z :=
  match exs with
  | [] => None
  | x :: r => if loc_eq x f then Some i else if loc_gt x f then None else fei_plus r f (i + 1)
  end.
Fixpoint fei_minus (rexs : list (Z * Z)) (f : Z * Z) (i : Z) : option Z :=
  match rexs with
  | [] => None
  | x :: r => if loc_eq x f then Some i else if loc_lt x f then None else fei_minus r f (i + 1)
  end.
Definition find_exon_index (a : canno) (frag : Z * Z) : option Z :=
  let f := frag_to_genomic (ca_gene a) frag in
  if g_strand (ca_gene a) =? 1 then fei_plus (ca_exons a) f 0
  else fei_minus (rev (ca_exons a)) f 0.

(* tolerance ranges (lo, hi): FeatureLocation(start=lo, end=hi+1) ; value in range *)
Definition in_rng (v : Z) (rg : Z * Z) : bool := (fst rg <=? v) && (v <? snd rg + 1).

(* find_intron_index, plus strand; i = index of the current exon *)
Fixpoint fii_plus (exs : list (Z * Z)) (f : Z * Z) (sr er : Z * Z) (i : Z) : option Z :=
  match exs with
  | [] => None
  | (s, e) :: r =>
      if in_rng (fst f - e) sr then
        match r with
        | [] => None
        | (s2, e2) :: _ =>
            if in_rng (snd f - s2) er then Some ((i + 1) - 1)
            else if s2 >=? snd f then Some ((i + 1) - 1)
            else None
        end
      else if s >? snd f then None
      else fii_plus r f sr er (i + 1)
  end.
(* minus strand: reversed(list(enumerate(exons))); i = original index of the current exon *)
Fixpoint fii_minus (rexs : list (Z * Z)) (f : Z * Z) (sr er : Z * Z) (i : Z) : option Z :=
  match rexs with
  | [] => None
  | (s, e) :: r =>
      if in_rng (- (snd f - s)) sr then
        match r with
        | [] => None
        | (s2, e2) :: _ =>
            if in_rng (- (fst f - e2)) er then Some ((i - 1) + 1)
            else if e2 <=? fst f then Some ((i - 1) + 1)
            else None
        end
      else if e <? fst f then None
      else fii_minus r f sr er (i - 1)
  end.
(* None in the outer option = ValueError from FeatureLocation(start, end) with end < start *)
Definition find_intron_index (a : canno) (frag : Z * Z) (sr er : Z * Z) : cres Z :=
  if (snd sr + 1 <? fst sr) || (snd er + 1 <? fst er) then CErrValue
  else
    let f := frag_to_genomic (ca_gene a) frag in
    match (if g_strand (ca_gene a) =? 1 then fii_plus (ca_exons a) f sr er 0
           else fii_minus (rev (ca_exons a)) f sr er (zlen (ca_exons a) - 1)) with
    | Some i => COk i
    | None => CErrIntron
    end.

(* one block -> fragment (gene coordinates) *)
Definition block_fragment (g : gene) (bs size : Z) : cres (Z * Z) :=
  cbind (of_res (g2gene g bs)) (fun s0 =>
  cbind (of_res (g2gene g (bs + size - 1))) (fun e0 =>
  let s1 := if g_strand g =? -1 then e0 else s0 in
  let e1 := (if g_strand g =? -1 then s0 else e0) + 1 in
  if e1 <? s1 then CErrValue else COk (s1, e1))).

(* the for loop over exon_sizes; i = block index *)
Fixpoint blocks_loop (a : canno) (r : cerec) (sr er : Z * Z) (sizes : list Z) (i : nat)
  : cres (list (Z * Z) * list Z) :=
  match sizes with
  | [] => COk ([], [])
  | size :: rest =>
      match nth_error (ce_offsets r) i with
      | None => CErrIndex
      | Some off =>
          cbind (block_fragment (ca_gene a) (ce_start r + off) size) (fun fr =>
          cbind (if ce_type r =? 0 then
                   match find_exon_index a fr with Some _ => COk false | None => CErrExon end
                 else cbind (find_intron_index a fr sr er) (fun _ => COk true)) (fun is_intron =>
          cbind (blocks_loop a r sr er rest (S i)) (fun more =>
          COk (fr :: fst more, if is_intron then Z.of_nat i :: snd more else snd more))))
      end
  end.

Definition convert_circ (a : canno) (r : cerec) (sr er : Z * Z) : cres circ :=
  if negb ((ce_type r =? 0) || (ce_type r =? 1)) then CErrValue
  else
    cbind (blocks_loop a r sr er (ce_sizes r) 0) (fun fi =>
    cbind (of_res (g2gene (ca_gene a) (ce_start r))) (fun s0 =>
    cbind (of_res (g2gene (ca_gene a) (ce_end r - 1))) (fun e0 =>
    let s1 := if g_strand (ca_gene a) =? -1 then e0 else s0 in
    let e1 := (if g_strand (ca_gene a) =? -1 then s0 else e0) + 1 in
    COk (mkCirc (fst fi) (snd fi) s1 e1)))).

(* ---- validity (CIRCexplorer2: read number; CIRCexplorer3: + FPBcirc and circscore, each skipped when the
   option is None or 0) ; thresholds scaled by 1000 like the record's values ---- *)
Record cthr := mkCthr { ct_ce3 : bool; ct_reads : Z; ct_fpb : option Z; ct_score : option Z }.
Definition truthy (o : option Z) : option Z :=
  match o with Some v => if v =? 0 then None else Some v | None => None end.
Definition is_valid (th : cthr) (r : cerec) : bool :=
  if ct_ce3 th then
    match truthy (ct_fpb th) with
    | Some m => if ce_fpb r <? m then false else
        match truthy (ct_score th) with
        | Some m2 => if ce_score r <? m2 then false else ct_reads th <=? ce_reads r
        | None => ct_reads th <=? ce_reads r
        end
    | None =>
        match truthy (ct_score th) with
        | Some m2 => if ce_score r <? m2 then false else ct_reads th <=? ce_reads r
        | None => ct_reads th <=? ce_reads r
        end
    end
  else ct_reads th <=? ce_reads r.

(* ---- the CLI loop: emitted records (in input order), tally (total, insufficient, invalid);
   None = an exception other than ExonNotFound / IntronNotFound aborts the run ---- *)
Record tally := mkTally { ta_emitted : list (nat * circ); ta_total : Z; ta_insufficient : Z; ta_invalid : Z }.

Fixpoint cli_loop (th : cthr) (sr er : Z * Z) (recs : list (canno * cerec)) (k : nat) : option tally :=
  match recs with
  | [] => Some (mkTally [] 0 0 0)
  | (a, r) :: rest =>
      if negb (is_valid th r) then
        match cli_loop th sr er rest (S k) with
        | Some t => Some (mkTally (ta_emitted t) (ta_total t + 1) (ta_insufficient t + 1) (ta_invalid t))
        | None => None
        end
      else
        match convert_circ a r sr er with
        | COk c =>
            match cli_loop th sr er rest (S k) with
            | Some t => Some (mkTally ((k, c) :: ta_emitted t) (ta_total t + 1) (ta_insufficient t) (ta_invalid t))
            | None => None
            end
        | CErrExon | CErrIntron =>
            match cli_loop th sr er rest (S k) with
            | Some t => Some (mkTally (ta_emitted t) (ta_total t + 1) (ta_insufficient t) (ta_invalid t + 1))
            | None => None
            end
        | _ => None
        end
  end.

(* ---- CircRNAModel.get_circ_rna_sequence: sorted(fragments) then concatenation of gene slices ---- *)
Fixpoint insert_loc (x : Z * Z) (l : list (Z * Z)) : list (Z * Z) :=
  match l with
  | [] => [x]
  | y :: t => if loc_lt x y then x :: l else y :: insert_loc x t
  end.
Fixpoint sort_locs (l : list (Z * Z)) : list (Z * Z) :=
  match l with [] => [] | x :: t => insert_loc x (sort_locs t) end.
(* stable insertion: Python's sorted() is stable and uses only __lt__ *)
Definition circ_seq (gs : seq) (frags : list (Z * Z)) : seq :=
  concat (map (fun f => pyslice gs (fst f) (snd f)) (sort_locs frags)).

(* to_string: POS (0-based start of fragments[0]), OFFSET, LENGTH *)
Definition gvf_pos (c : circ) : Z := match ci_frags c with f :: _ => fst f | [] => 0 end.
Definition gvf_offsets (c : circ) : list Z := map (fun f => fst f - gvf_pos c) (ci_frags c).
Definition gvf_lengths (c : circ) : list Z := map (fun f => snd f - fst f) (ci_frags c).

(* ---- declarative side ---- *)
(* the reported blocks as genomic intervals, in file order *)
Fixpoint blocks_of (start : Z) (sizes offsets : list Z) : list (Z * Z) :=
  match sizes, offsets with
  | size :: ss, off :: os => (start + off, start + off + size) :: blocks_of start ss os
  | _, _ => []
  end.
(* strand-corrected block = its interval in gene coordinates *)
Definition block_in_gene (g : gene) (b : Z * Z) : Z * Z :=
  if g_strand g =? 1 then (fst b - g_start g, snd b - g_start g)
  else (g_end g - snd b, g_end g - fst b).
(* blocks ascending and non-empty, as in a BED12 line *)
Fixpoint blocks_asc (bs : list (Z * Z)) : Prop :=
  match bs with
  | [] => True
  | b :: t => fst b < snd b /\ match t with [] => True | b2 :: _ => snd b <= fst b2 end /\ blocks_asc t
  end.
(* exons ascending and non-empty; introns may have length zero (abutting exons are allowed) *)
Fixpoint exons_asc (exs : list (Z * Z)) : Prop :=
  match exs with
  | [] => True
  | x :: t => fst x < snd x /\ match t with [] => True | y :: _ => snd x <= fst y end /\ exons_asc t
  end.
(* the exons in transcript order *)
Definition tx_exons (a : canno) : list (Z * Z) :=
  if g_strand (ca_gene a) =? 1 then ca_exons a else rev (ca_exons a).

(* a genomic block inside the gene *)
Definition in_gene (g : gene) (b : Z * Z) : Prop :=
  g_start g <= fst b /\ snd b <= g_end g /\ fst b <= snd b.
(* a CIRCexplorer3 threshold option: None and 0 switch the test off *)
Definition thr_ok (o : option Z) (v : Z) : Prop :=
  match o with Some m => m = 0 \/ m <= v | None => True end.
(* the reported intron block f against two consecutive exons x (upstream), y (downstream) of the transcript *)
Definition intron_match_plus (f x y : Z * Z) (sr er : Z * Z) : Prop :=
  in_rng (fst f - snd x) sr = true /\ (in_rng (snd f - fst y) er = true \/ snd f <= fst y).
Definition intron_match_minus (f x y : Z * Z) (sr er : Z * Z) : Prop :=
  in_rng (- (snd f - fst x)) sr = true /\ (in_rng (- (fst f - snd y)) er = true \/ snd y <= fst f).
(* fragments re-created from the GVF columns POS / OFFSET / LENGTH (circ.io.line_to_circ_model) *)
Definition gvf_fragments (pos : Z) (offsets lengths : list Z) : list (Z * Z) :=
  map (fun ol => (pos + fst ol, pos + fst ol + snd ol)) (combine offsets lengths).

