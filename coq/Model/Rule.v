(* Cleavage rules: the regex fragment used by moPepGen/aa/expasy_rules.py.
   A rule is a list of alternatives (look-behind classes, one consuming centre
   class, look-ahead classes); Python's re.finditer tries alternatives in order
   at every position and, since only the centre is consumed, every position is
   examined independently. *)
From MoPep Require Import Model.Base.
Open Scope Z_scope.

Inductive cls := CIn (l : list Z) | CNotIn (l : list Z) | CWord | CBad.
Record alt := mkAlt { before : list cls; centre : cls; after : list cls }.
Definition rule := list alt.
Definition rule2 := list (list cls).

(* \w restricted to ASCII: [A-Za-z0-9_] *)
Definition is_word (c : Z) : bool :=
  ((48 <=? c) && (c <=? 57)) || ((65 <=? c) && (c <=? 90)) ||
  ((97 <=? c) && (c <=? 122)) || (c =? 95).

Definition cls_match (c : cls) (x : Z) : bool :=
  match c with
  | CIn l => memZ x l
  | CNotIn l => negb (memZ x l)
  | CWord => is_word x
  | CBad => false
  end.

(* class list matches a prefix of s (s must be long enough) *)
Fixpoint match_prefix (cs : list cls) (s : seq) : bool :=
  match cs, s with
  | [], _ => true
  | c :: cs', x :: s' => cls_match c x && match_prefix cs' s'
  | _ :: _, [] => false
  end.

(* rl = reversed left context, x = candidate centre, rt = right context *)
Definition alt_match (a : alt) (rl : seq) (x : Z) (rt : seq) : bool :=
  match_prefix (rev (before a)) rl && cls_match (centre a) x && match_prefix (after a) rt.

Definition rule_match (r : rule) (rl : seq) (x : Z) (rt : seq) : bool :=
  existsb (fun a => alt_match a rl x rt) r.

(* first matching alternative index (regex alternation is ordered) *)
Fixpoint first_alt (r : rule) (rl : seq) (x : Z) (rt : seq) (n : nat) : option nat :=
  match r with
  | [] => None
  | a :: r' => if alt_match a rl x rt then Some n else first_alt r' rl x rt (S n)
  end.

Fixpoint maxlen {A} (f : alt -> list A) (r : rule) : nat :=
  match r with [] => O | a :: r' => Nat.max (length (f a)) (maxlen f r') end.
Definition reach_before (r : rule) : nat := maxlen before r.
Definition reach_after (r : rule) : nat := maxlen after r.

Fixpoint cls_ok (c : cls) : bool := match c with CBad => false | _ => true end.
Definition alt_ok (a : alt) : bool :=
  forallb cls_ok (before a) && cls_ok (centre a) && forallb cls_ok (after a).
Definition rule_ok (r : rule) : bool := negb (match r with [] => true | _ => false end) && forallb alt_ok r.

(* association by name *)
Fixpoint lookup {A} (name : list Z) (t : list (list Z * A)) : option A :=
  match t with
  | [] => None
  | (n, v) :: t' => if eq_seq name n then Some v else lookup name t'
  end.
