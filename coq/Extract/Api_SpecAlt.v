(* Oracle entry points for C01/C02/C03 with the alt-translation flags (glue). *)
From MoPep Require Import Model.Base Model.Rule Model.Digest Model.Spec Model.SpecAlt Extract.Api_Spec.
Open Scope Z_scope.

Definition cv_flags (v : val) : flags := mkFlags (getB (argn 0 v)) (getB (argn 1 v)).

(* [x; [sect; w2f]] -> must_set_fl *)
Definition api_cv_must_fl (v : val) : val :=
  ofSS (cv_dedup (must_set_fl (cv_flags (argn 1 v)) (cv_input (argn 0 v)))).

(* [x; [sect; w2f]] -> may_set_fl minus the forms of the reference products minus the pool *)
Definition api_cv_may_novel_fl (v : val) : val :=
  let x := cv_input (argn 0 v) in
  let fl := cv_flags (argn 1 v) in
  ofSS (cv_dedup (filter (novel_fl fl x) (may_set_fl fl x))).

(* [x; [sect; w2f]; peptides] -> [realizable_fl ...] *)
Definition api_cv_realizable_fl (v : val) : val :=
  let x := cv_input (argn 0 v) in
  let m := may_set_fl (cv_flags (argn 1 v)) x in
  VL (map (fun p => ofB (mem_seq (getS p) m)) (getL (argn 2 v))).

(* [x; [[peptide; ids; sect; w2f]; ...]] -> [witness_ok_fl ...] *)
Definition api_cv_witness_fl (v : val) : val :=
  let x := cv_input (argn 0 v) in
  VL (map (fun q => ofB (witness_ok_fl x (getS (argn 0 q)) (cv_nats (argn 1 q)) (getB (argn 2 q)) (getB (argn 3 q))))
          (getL (argn 1 v))).

(* [x; [sect; w2f]; p] -> obliged products (limits lifted) one of whose forms is p  (finding signatures) *)
Definition api_cv_must_bases_fl (v : val) : val :=
  ofSS (cv_dedup (must_bases_fl (cv_flags (argn 1 v)) (cv_input (argn 0 v)) (getS (argn 2 v)))).

(* [x; [sect; w2f]; peptides] -> [[p; base] ...]  bases of all given alt forms in one pass *)
Definition api_cv_must_bases_fl_many (v : val) : val :=
  VL (map (fun pq => VL [ofS (fst pq); ofS (snd pq)])
          (must_bases_fl_many (cv_flags (argn 1 v)) (cv_input (argn 0 v)) (getSS (argn 2 v)))).
