(* Oracle entry points for C12 (glue: decoding/encoding of protocol values; unverified, trusted).

   version  = [py; bio; mpg]                      (strings)
   params   = [enzyme; exc; misc; minmw4; minlen; maxlen]   exc = [] (None) or [string]
   op       = [0; ref; params; force] | [1; params; force] | [2; params]
   outcome  = [code]  0 Ok 1 Exit1 2 ErrVersion 3 ErrSemver 4 ErrNoPool 5 ErrExists 6 ErrNoFile
            | [7; [ref; params]; r]   Loaded
   state    = [meta; ref; files; other]   meta = [] | [[version; [[file; index; params]...]; src]]
                                          ref/src = [] | [id] ; files = [[name; [ref; params]]...] *)
From MoPep Require Import Model.Base Model.Index Gen.Version.
Open Scope Z_scope.

Definition c12_get_opt (v : val) : option (list Z) :=
  match getL v with [] => None | x :: _ => Some (getS x) end.
Definition c12_of_opt (o : option (list Z)) : val :=
  match o with None => VL [] | Some s => VL [ofS s] end.
Definition c12_of_optZ (o : option Z) : val :=
  match o with None => VL [] | Some z => VL [VZ z] end.

Definition c12_get_params (v : val) : params :=
  mkP (getS (argn 0 v)) (c12_get_opt (argn 1 v)) (getZ (argn 2 v)) (getZ (argn 3 v)) (getZ (argn 4 v)) (getZ (argn 5 v)).
Definition c12_of_params (p : params) : val :=
  VL [ofS (p_enzyme p); c12_of_opt (p_exc p); VZ (p_misc p); VZ (p_minmw p); VZ (p_minlen p); VZ (p_maxlen p)].

Definition c12_get_version (v : val) : version := mkV (getS (argn 0 v)) (getS (argn 1 v)) (getS (argn 2 v)).
Definition c12_of_version (v : version) : val := VL [ofS (v_py v); ofS (v_bio v); ofS (v_mpg v)].

Definition c12_get_op (v : val) : op :=
  let k := getZ (argn 0 v) in
  if k =? 0 then OpGenerate (getZ (argn 1 v)) (c12_get_params (argn 2 v)) (getB (argn 3 v))
  else if k =? 1 then OpUpdate (c12_get_params (argn 1 v)) (getB (argn 2 v))
  else OpLoad (c12_get_params (argn 1 v)).

Definition c12_of_content (c : content) : val := VL [VZ (fst c); c12_of_params (snd c)].

Definition c12_of_outcome (o : outcome) : val :=
  match o with
  | OOk => VL [VZ 0] | OExit1 => VL [VZ 1] | OErrVersion => VL [VZ 2] | OErrSemver => VL [VZ 3]
  | OErrNoPool => VL [VZ 4] | OErrExists => VL [VZ 5] | OErrNoFile => VL [VZ 6]
  | OLoaded c r => VL [VZ 7; c12_of_content c; VZ r]
  end.

Definition c12_of_meta (m : meta) : val :=
  VL [c12_of_version (m_ver m);
      VL (map (fun pm => VL [ofS (pm_file pm); VZ (pm_index pm); c12_of_params (pm_params pm)]) (m_pools m));
      c12_of_optZ (m_src m)].

Definition c12_of_disk (d : disk) : val :=
  VL [match d_meta d with None => VL [] | Some m => VL [c12_of_meta m] end;
      c12_of_optZ (d_ref d);
      VL (map (fun fc => VL [ofS (fst fc); c12_of_content (snd fc)]) (d_files d));
      ofB (d_other d)].

Definition c12_of_astate (a : astate) : val :=
  VL [match a_ix a with
      | None => VL []
      | Some ix => VL [VL [VZ (a_ref ix); c12_of_version (a_ver ix);
                           VL (map (fun kc => VL [c12_of_params (fst kc); c12_of_content (snd kc)]) (a_map ix))]]
      end; ofB (a_other a)].

(* [other; probe_env; [probe params ...]; [[env; op] ...]]
   -> per step: [outcome; disk after; [load outcome of every probe under probe_env]; abstract outcome; abstract state] *)
Fixpoint c12_walk (penv : version) (probes : list params) (d : disk) (a : astate) (ops : list (version * op)) : list val :=
  match ops with
  | [] => []
  | eo :: t =>
      let '(d', o) := step d eo in
      let '(a', ao) := astep a eo in
      VL [c12_of_outcome o; c12_of_disk d';
          VL (map (fun q => c12_of_outcome (load penv q d')) probes);
          c12_of_outcome ao; c12_of_astate a'] :: c12_walk penv probes d' a' t
  end.

Definition api_c12_run (v : val) : val :=
  let other := getB (argn 0 v) in
  let penv := c12_get_version (argn 1 v) in
  let probes := map c12_get_params (getL (argn 2 v)) in
  let ops := map (fun x => (c12_get_version (argn 0 x), c12_get_op (argn 1 x))) (getL (argn 3 v)) in
  VL (c12_walk penv probes (init_disk other) (init_a other) ops).

(* [cur; recorded] -> 0 valid / 1 invalid / 2 ValueError, for the recorded triple as read by load_metadata *)
Definition api_c12_is_valid (v : val) : val :=
  let cur := c12_get_version (argn 0 v) in
  match is_valid cur (load_version cur (c12_get_version (argn 1 v))) with
  | VTrue => VZ 0 | VFalse => VZ 1 | VRaise => VZ 2
  end.

(* index -> file name *)
Definition api_c12_filename (v : val) : val := ofS (filename_of (getZ v)).

(* params -> resolved params ; [a; b] -> equality of the jsonfy tuples of the resolved parameters *)
Definition api_c12_resolve (v : val) : val := c12_of_params (resolve (c12_get_params v)).
Definition api_c12_params_eq (v : val) : val :=
  ofB (params_eqb (resolve (c12_get_params (argn 0 v))) (resolve (c12_get_params (argn 1 v)))).

(* the regenerated constants *)
Definition api_c12_constants (_ : val) : val :=
  VL [ofS mopepgen_version; ofS minimal_version; ofB index_constants_ok; ofS lit_auto; ofS lit_trypsin;
      ofS lit_trypsin_exception; ofS eq_fields].
