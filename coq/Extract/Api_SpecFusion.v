(* Oracle entry points for fusion backbones (glue). *)
From MoPep Require Import Model.Base Model.Rule Model.Digest Model.Spec Model.SpecFusion Extract.Api_Spec.
Open Scope Z_scope.

(* [xd; bp; xa; bp'; peptides] -> [realizable_fusion ...] *)
Definition api_cv_fusion_realizable (v : val) : val :=
  let x := fuse (cv_input (argn 0 v)) (getZ (argn 1 v)) (cv_input (argn 2 v)) (getZ (argn 3 v)) in
  let m := fusion_set x in
  VL (map (fun p => ofB (mem_seq (getS p) m)) (getL (argn 4 v))).

(* [xd; bp; xa; bp'] -> fused backbone sequence (diagnosis) *)
Definition api_cv_fusion_tx (v : val) : val :=
  ofS (in_tx (fuse (cv_input (argn 0 v)) (getZ (argn 1 v)) (cv_input (argn 2 v)) (getZ (argn 3 v)))).

(* [xd; bp; xa; bp'] -> must_fusion_set *)
Definition api_cv_fusion_must (v : val) : val :=
  ofSS (cv_dedup (must_fusion_set (cv_input (argn 0 v)) (getZ (argn 1 v)) (cv_input (argn 2 v)) (getZ (argn 3 v)))).

(* [xd; bp; xa; bp'; peptides] -> realizable on the fused backbone when a donor Sec codon ending exactly at
   the breakpoint is read as stop  (finding signature) *)
Definition api_cv_fusion_realizable_secvoid (v : val) : val :=
  let x := fuse_secvoid (cv_input (argn 0 v)) (getZ (argn 1 v)) (cv_input (argn 2 v)) (getZ (argn 3 v)) in
  let m := fusion_set x in
  VL (map (fun p => ofB (mem_seq (getS p) m)) (getL (argn 4 v))).
