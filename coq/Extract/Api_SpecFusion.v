(* Oracle entry points for fusion backbones (glue). *)
From MoPep Require Import Model.Base Model.Rule Model.Digest Model.Spec Model.SpecFusion Extract.Api_Spec.
Open Scope Z_scope.

(* [xd; bp; xa; bp'; peptides] -> [realizable_fusion ...] *)
Definition api_cv_fusion_realizable (v : val) : val :=
  let x := fuse (cv_input (argn 0 v)) (getZ (argn 1 v)) (cv_input (argn 2 v)) (getZ (argn 3 v)) in
  let m := fusion_set x in
  VL (map (fun p => ofB (mem_seq (getS p) m)) (getL (argn 4 v))).

(* [xd; bp; xa; bp'] -> fused backbone sequence (diagnosis) *)
Definition api_cv_fusion_tx (v : val) : val :=
  ofS (in_tx (fuse (cv_input (argn 0 v)) (getZ (argn 1 v)) (cv_input (argn 2 v)) (getZ (argn 3 v)))).

(* [xd; bp; xa; bp'] -> must_fusion_set *)
Definition api_cv_fusion_must (v : val) : val :=
  ofSS (cv_dedup (must_fusion_set (cv_input (argn 0 v)) (getZ (argn 1 v)) (cv_input (argn 2 v)) (getZ (argn 3 v)))).

(* [xd; bp; xa; bp'; peptides] -> realizable on the fused backbone when a donor Sec codon ending exactly at
   the breakpoint is read as stop  (finding signature) *)
Definition api_cv_fusion_realizable_secvoid (v : val) : val :=
  let x := fuse_secvoid (cv_input (argn 0 v)) (getZ (argn 1 v)) (cv_input (argn 2 v)) (getZ (argn 3 v)) in
  let m := fusion_set x in
  VL (map (fun p => ofB (mem_seq (getS p) m)) (getL (argn 4 v))).

(* ---- general breakpoints ---- *)
Definition cv_vars (v : val) : list variant := map cv_var (getL v).

(* [xd; bp; mid; mvars; xa; bp'; peptides] -> [realizable_fusion_g ...] *)
Definition api_cv_fusion_realizable_g (v : val) : val :=
  let x := fuse_gen (cv_input (argn 0 v)) (getZ (argn 1 v)) (getS (argn 2 v)) (cv_vars (argn 3 v))
                    (cv_input (argn 4 v)) (getZ (argn 5 v)) in
  let m := fusion_set_t x in
  VL (map (fun p => ofB (mem_seq (getS p) m)) (getL (argn 6 v))).

(* [xd; bp; mid; mvars; xa; bp'] -> must_fusion_set_g *)
Definition api_cv_fusion_must_g (v : val) : val :=
  ofSS (cv_dedup (must_fusion_set_g (cv_input (argn 0 v)) (getZ (argn 1 v)) (getS (argn 2 v)) (cv_vars (argn 3 v))
                                    (cv_input (argn 4 v)) (getZ (argn 5 v)))).

(* [xd; bp; mid; mvars; xa; bp'] -> fused backbone (diagnosis) *)
Definition api_cv_fusion_tx_g (v : val) : val :=
  ofS (in_tx (fuse_gen (cv_input (argn 0 v)) (getZ (argn 1 v)) (getS (argn 2 v)) (cv_vars (argn 3 v))
                       (cv_input (argn 4 v)) (getZ (argn 5 v)))).
