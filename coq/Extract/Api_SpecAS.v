(* Oracle entry points for alternative-splicing records (glue; Model/SpecAS.v). *)
From MoPep Require Import Model.Base Model.Rule Model.Digest Model.Spec Model.SpecFusion Model.SpecAS Extract.Api_Spec.
Open Scope Z_scope.

(* asrec = [a_s; a_e; donor; [[s; e; alt; ok]; ...]]   (transcript / donor coordinates) *)
Definition cv_asrec (v : val) : asrec :=
  mkAS (getZ (argn 0 v)) (getZ (argn 1 v)) (getS (argn 2 v)) (map cv_var (getL (argn 3 v))).

(* [x; asrecs; peptides] -> [realizable_as x asrecs p ...] *)
Definition api_cv_as_realizable (v : val) : val :=
  let m := as_set (cv_input (argn 0 v)) (map cv_asrec (getL (argn 1 v))) in
  VL (map (fun p => ofB (mem_seq (getS p) m)) (getL (argn 2 v))).

(* [x; asrecs] -> must_as_set (deduplicated) *)
Definition api_cv_as_must (v : val) : val :=
  ofSS (cv_dedup (must_as_set (cv_input (argn 0 v)) (map cv_asrec (getL (argn 1 v))))).

(* [x; asrecs] -> backbone with ALL given records applied (diagnosis; the caller passes a compatible set) *)
Definition api_cv_as_tx (v : val) : val :=
  ofS (in_tx (as_apply_all (cv_input (argn 0 v)) (map cv_asrec (getL (argn 1 v))))).

(* [x; asrecs] -> [[s; e; alt] ...] records of the derived backbone (diagnosis) *)
Definition api_cv_as_vars (v : val) : val :=
  VL (map (fun w => VL [VZ (v_s w); VZ (v_e w); ofS (v_alt w)])
          (in_vars (as_apply_all (cv_input (argn 0 v)) (map cv_asrec (getL (argn 1 v)))))).

(* [x; asrecs; peptides] -> realizable on an AS backbone when look-behind-dependent rule sites are optional
   (signature of the known finding D14b-lookbehind, Spec.may_products_relaxed2) *)
Definition api_cv_as_realizable_relaxed2 (v : val) : val :=
  let x := cv_input (argn 0 v) in
  let m := flat_map (fun s => let y := as_apply_all x s in
                       may_products_relaxed2 y [] ++ flat_map (may_products_relaxed2 y) (haplotypes false (in_vars y)))
                    (as_combos x (map cv_asrec (getL (argn 1 v)))) in
  VL (map (fun p => ofB (mem_seq (getS p) m)) (getL (argn 2 v))).

(* [x; asrec; cds_end; peptides] -> for each peptide: it has an obliged derivation on the AS backbone and EVERY
   obliged derivation starts at or behind the annotated stop codon (cds_end = transcript position of the stop
   codon, moved with the event and the haplotype): signature of the known finding C01-stoploss (products in the
   3'UTR behind a read-through stop codon) on an AS backbone *)
Definition as_move_pos (r : asrec) (q : Z) : Z :=
  if q <=? a_s r then q else if a_e r <=? q then q + as_delta r else a_s r.

Definition api_cv_as_stoploss (v : val) : val :=
  let x := cv_input (argn 0 v) in
  let r := cv_asrec (argn 1 v) in
  let ce := as_move_pos r (getZ (argn 2 v)) in
  let y := as_apply_gen false x r in
  let ders := flat_map (fun h =>
                let hs := apply_hap (in_tx y) h in
                flat_map (fun st =>
                  let tr := translate_from hs st (map (shift h) (in_sec y)) in
                  map (fun sp => match sp with (a, b, f, q) => (q, shift h ce <=? st + 3 * Z.of_nat a) end)
                      (span_products y (must_nf y) (must_tail y) tr))
                  (must_starts y hs))
              ([] :: must_haps y) in
  VL (map (fun p => let mine := filter (fun d => eq_seq (getS p) (fst d)) ders in
                    ofB (nonempty mine && forallb snd mine)) (getL (argn 3 v))).

(* [x; asrec; peptides] -> obliged derivations on the AS backbone of the given peptides:
   [[peptide; [[s; e; alt] ...] (records of the haplotype, backbone coordinates); start; a; b] ...]   (diagnosis / signatures) *)
Definition api_cv_as_must_derivs (v : val) : val :=
  let x := cv_input (argn 0 v) in
  let r := cv_asrec (argn 1 v) in
  let peps := getSS (argn 2 v) in
  let y := as_apply_gen false x r in
  if as_must_ok x r then
  VL (flat_map (fun h =>
        let hs := apply_hap (in_tx y) h in
        flat_map (fun st =>
          let tr := translate_from hs st (map (shift h) (in_sec y)) in
          flat_map (fun sp => match sp with (a, b, f, q) =>
                      if mem_seq q peps then
                        [VL [ofS q; VL (map (fun w => VL [VZ (v_s w); VZ (v_e w); ofS (v_alt w)]) h);
                             VZ st; VZ (Z.of_nat a); VZ (Z.of_nat b)]]
                      else [] end)
                   (span_products y (must_nf y) (must_tail y) tr))
          (must_starts y hs))
      ([] :: must_haps y))
  else VL [].
