(* Oracle entry points for alternative-splicing records (glue; Model/SpecAS.v). *)
From MoPep Require Import Model.Base Model.Rule Model.Digest Model.Spec Model.SpecFusion Model.SpecAS Extract.Api_Spec.
Open Scope Z_scope.

(* asrec = [a_s; a_e; donor; [[s; e; alt; ok]; ...]]   (transcript / donor coordinates) *)
Definition cv_asrec (v : val) : asrec :=
  mkAS (getZ (argn 0 v)) (getZ (argn 1 v)) (getS (argn 2 v)) (map cv_var (getL (argn 3 v))).

(* [x; asrecs; peptides] -> [realizable_as x asrecs p ...] *)
Definition api_cv_as_realizable (v : val) : val :=
  let m := as_set (cv_input (argn 0 v)) (map cv_asrec (getL (argn 1 v))) in
  VL (map (fun p => ofB (mem_seq (getS p) m)) (getL (argn 2 v))).

(* [x; asrecs] -> must_as_set (deduplicated) *)
Definition api_cv_as_must (v : val) : val :=
  ofSS (cv_dedup (must_as_set (cv_input (argn 0 v)) (map cv_asrec (getL (argn 1 v))))).

(* [x; asrecs] -> backbone with ALL given records applied (diagnosis; the caller passes a compatible set) *)
Definition api_cv_as_tx (v : val) : val :=
  ofS (in_tx (as_apply_all (cv_input (argn 0 v)) (map cv_asrec (getL (argn 1 v))))).

(* [x; asrecs] -> [[s; e; alt] ...] records of the derived backbone (diagnosis) *)
Definition api_cv_as_vars (v : val) : val :=
  VL (map (fun w => VL [VZ (v_s w); VZ (v_e w); ofS (v_alt w)])
          (in_vars (as_apply_all (cv_input (argn 0 v)) (map cv_asrec (getL (argn 1 v)))))).

(* [x; asrecs; peptides] -> realizable on an AS backbone when look-behind-dependent rule sites are optional
   (signature of the known finding D14b-lookbehind, Spec.may_products_relaxed2) *)
Definition api_cv_as_realizable_relaxed2 (v : val) : val :=
  let x := cv_input (argn 0 v) in
  let m := flat_map (fun s => let y := as_apply_all x s in
                       may_products_relaxed2 y [] ++ flat_map (may_products_relaxed2 y) (haplotypes false (in_vars y)))
                    (as_combos x (map cv_asrec (getL (argn 1 v)))) in
  VL (map (fun p => ofB (mem_seq (getS p) m)) (getL (argn 2 v))).
