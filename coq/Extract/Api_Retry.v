(* Oracle entry point for the retry clause of C02 (glue). *)
From MoPep Require Import Model.Base Model.Retry.
Open Scope Z_scope.

(* [mvs; avs; n] -> [[[mv; av]; ...]; failed]   limits of the attempts when the first n attempts time out *)
Definition api_c02_retry (v : val) : val :=
  let r := attempts (Z.to_nat (getZ (argn 2 v))) (rinit (getS (argn 0 v)) (getS (argn 1 v))) in
  VL [VL (map (fun p => VL [VZ (fst p); VZ (snd p)]) (fst r)); ofB (snd r)].
