(* Oracle entry points for C10 (glue: decoding of protocol values; unverified, trusted). *)
From MoPep Require Import Model.Base Model.Rule Model.Digest Model.ExpasyRef Gen.Expasy Gen.Bio.
Open Scope Z_scope.

Definition nat_list (l : list nat) : val := VL (map (fun n => VZ (Z.of_nat n)) l).

(* exception argument: [] = None; a name found in the table = that rule;
   any other name is compiled by the implementation as a literal regex, which
   cannot match the upper-case sequences the harness generates -> no exception. *)
(* an explicit rule value (used for exceptions given as a raw regular expression, translated by the
   harness with the same translator as the tables):
   cls ::= [0; chars] | [1; chars] | [2] ; alt ::= [before; centre; after] ; rule ::= [alt; ...] *)
Definition decode_cls (v : val) : cls :=
  match getL v with
  | VZ 0 :: cs :: _ => CIn (getS cs)
  | VZ 1 :: cs :: _ => CNotIn (getS cs)
  | VZ 2 :: _ => CWord
  | _ => CBad
  end.
Definition decode_alt (v : val) : alt :=
  mkAlt (map decode_cls (getL (argn 0 v))) (decode_cls (argn 1 v)) (map decode_cls (getL (argn 2 v))).
Definition decode_rule (v : val) : rule := map decode_alt (getL v).

Definition resolve_exc (v : val) : option rule :=
  match getL v with
  | [] => None
  | VZ (-1) :: rv :: _ => Some (decode_rule rv)       (* [-1; rule value] *)
  | _ => lookup (getS v) site_rules
  end.

Definition get_rule (v : val) : rule :=
  match lookup (getS v) site_rules with Some r => r | None => [] end.

(* [rule; exc; s] -> sites *)
Definition api_sites (v : val) : val :=
  nat_list (sites (get_rule (argn 0 v)) (resolve_exc (argn 1 v)) (getS (argn 2 v))).

(* [rule; exc; left; s; right] -> sites of s in context (offset = |left|) *)
Definition api_sites_ctx (v : val) : val :=
  let left := getS (argn 2 v) in
  nat_list (sites_ctx (get_rule (argn 0 v)) (resolve_exc (argn 1 v))
              (rev left) (getS (argn 3 v)) (getS (argn 4 v)) (length left)).

Definition get_limits (v : val) : limits :=
  mkLimits (getZ (argn 0 v)) (getZ (argn 1 v)) (getZ (argn 2 v)) (getZ (argn 3 v)).

(* [rule; exc; [k;min_mw4;minlen;maxlen]; nf; s] -> [raised; peptides] *)
Definition api_cleave (v : val) : val :=
  let r := get_rule (argn 0 v) in
  let e := resolve_exc (argn 1 v) in
  let lim := get_limits (argn 2 v) in
  let nf := getB (argn 3 v) in
  let s := getS (argn 4 v) in
  match cleave_checked protein_weights4 water4 lim r e nf s with
  | None => VL [VZ 1; VL []]
  | Some ps => VL [VZ 0; ofSS ps]
  end.

(* [rule; exc; limits; [[s; nf]; ...]] -> [raised; peptides] *)
Definition api_pool (v : val) : val :=
  let r := get_rule (argn 0 v) in
  let e := resolve_exc (argn 1 v) in
  let lim := get_limits (argn 2 v) in
  let prots := map (fun p => (getS (argn 0 p), getB (argn 1 p))) (getL (argn 3 v)) in
  if pool_raises protein_weights4 lim r e prots then VL [VZ 1; VL []]
  else VL [VZ 0; ofSS (pool protein_weights4 water4 lim r e prots)].

(* names of the translated rules, for the harness *)
Definition api_rule_names (_ : val) : val := ofSS (map fst site_rules).

(* the same site computation with the REFERENCE table (used to search for a failing input when the
   regenerated table no longer equals the reference) : [rule; exc; s] *)
Definition api_sites_ref (v : val) : val :=
  let get n := match lookup (getS n) reference_rules with Some r => r | None => [] end in
  let exc := match getL (argn 1 v) with [] => None | _ => lookup (getS (argn 1 v)) reference_rules end in
  nat_list (sites (get (argn 0 v)) exc (getS (argn 2 v))).

(* several pools at once: [[rule; exc; limits; prots]; ...] -> [[raised; peptides]; ...] *)
Definition api_pool_multi (v : val) : val := VL (map api_pool (getL v)).

(* [rule; exc; s] -> [raised; [[site; [a; b]]; ...]]   (find_all_enzymatic_cleave_sites_with_ranges) *)
Definition api_sites_range (v : val) : val :=
  let r2 := match lookup (getS (argn 0 v)) range_rules with Some x => x | None => [] end in
  match sites_with_range (get_rule (argn 0 v)) r2 (resolve_exc (argn 1 v)) (getS (argn 2 v)) with
  | None => VL [VZ 1; VL []]
  | Some l => VL [VZ 0; VL (map (fun sr => VL [VZ (Z.of_nat (fst sr));
                                   VL [VZ (Z.of_nat (fst (snd sr))); VZ (Z.of_nat (snd (snd sr)))]]) l)]
  end.
