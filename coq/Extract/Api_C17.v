(* Oracle entry points for C17 (glue: decoding of protocol values; unverified, trusted). *)
From MoPep Require Import Model.Base Model.Vep Model.Circ.
Open Scope Z_scope.

Definition c17_pair (v : val) : Z * Z := (getZ (argn 0 v), getZ (argn 1 v)).
Definition c17_pairs (v : val) : list (Z * Z) := map c17_pair (getL v).
Definition c17_enc_pairs (l : list (Z * Z)) : val := VL (map (fun p => VL [VZ (fst p); VZ (snd p)]) l).
Definition c17_opt (v : val) : option Z := match getL v with [] => None | x :: _ => Some (getZ x) end.

(* [[strand; gstart; gend]; exons] *)
Definition c17_anno (v : val) : canno :=
  let g := argn 0 v in
  mkCanno (mkGene (getZ (argn 0 g)) (getZ (argn 1 g)) (getZ (argn 2 g))) (c17_pairs (argn 1 v)).
(* [start; end; sizes; offsets; reads; type; fpb; score] *)
Definition c17_rec (v : val) : cerec :=
  mkCerec (getZ (argn 0 v)) (getZ (argn 1 v)) (getS (argn 2 v)) (getS (argn 3 v))
          (getZ (argn 4 v)) (getZ (argn 5 v)) (getZ (argn 6 v)) (getZ (argn 7 v)).

Definition c17_enc_circ (c : circ) : val :=
  VL [c17_enc_pairs (ci_frags c); ofS (ci_intron c); VZ (ci_id_start c); VZ (ci_id_end c);
      VZ (gvf_pos c); ofS (gvf_offsets c); ofS (gvf_lengths c)].

(* [anno; rec; [lo; hi]; [lo; hi]] -> [0; circ] or [code] (1 value, 2 exon, 3 intron, 4 index) *)
Definition api_c17_convert (v : val) : val :=
  match convert_circ (c17_anno (argn 0 v)) (c17_rec (argn 1 v)) (c17_pair (argn 2 v)) (c17_pair (argn 3 v)) with
  | COk c => VL [VZ 0; c17_enc_circ c]
  | CErrValue => VL [VZ 1]
  | CErrExon => VL [VZ 2]
  | CErrIntron => VL [VZ 3]
  | CErrIndex => VL [VZ 4]
  end.

(* [anno; frag] -> [] or [i] *)
Definition api_c17_find_exon (v : val) : val :=
  match find_exon_index (c17_anno (argn 0 v)) (c17_pair (argn 1 v)) with
  | Some i => VL [VZ i] | None => VL []
  end.
(* [anno; frag; sr; er] -> [0; i] or [code] *)
Definition api_c17_find_intron (v : val) : val :=
  match find_intron_index (c17_anno (argn 0 v)) (c17_pair (argn 1 v)) (c17_pair (argn 2 v)) (c17_pair (argn 3 v)) with
  | COk i => VL [VZ 0; VZ i]
  | CErrValue => VL [VZ 1]
  | _ => VL [VZ 3]
  end.

(* [gene sequence; fragments] -> circular sequence *)
Definition api_c17_circ_seq (v : val) : val :=
  ofS (circ_seq (getS (argn 0 v)) (c17_pairs (argn 1 v))).

Definition c17_thr (v : val) : cthr :=
  mkCthr (getB (argn 0 v)) (getZ (argn 1 v)) (c17_opt (argn 2 v)) (c17_opt (argn 3 v)).

(* [[ce3; min_reads; [fpb]; [score]]; sr; er; [[anno; rec]; ...]] ->
   [] (abort) or [[ [k; circ]; ... ]; total; insufficient; invalid] *)
Definition api_c17_cli (v : val) : val :=
  let recs := map (fun x => (c17_anno (argn 0 x), c17_rec (argn 1 x))) (getL (argn 3 v)) in
  match cli_loop (c17_thr (argn 0 v)) (c17_pair (argn 1 v)) (c17_pair (argn 2 v)) recs 0 with
  | None => VL []
  | Some t => VL [VL (map (fun kc => VL [VZ (Z.of_nat (fst kc)); c17_enc_circ (snd kc)]) (ta_emitted t));
                  VZ (ta_total t); VZ (ta_insufficient t); VZ (ta_invalid t)]
  end.
