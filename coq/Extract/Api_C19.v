(* Oracle entry points for C19 (glue: decoding of protocol values; unverified, trusted). *)
From MoPep Require Import Model.Base Model.Rule Model.Digest Model.Header Model.Filter Gen.Expasy.
Open Scope Z_scope.

Definition c19_optZ (v : val) : option Z :=
  match getL v with x :: _ => Some (getZ x) | [] => None end.

Definition s_trypsin : str := [116;114;121;112;115;105;110].
Definition s_trypsin_exception : str := s_trypsin ++ [95;101;120;99;101;112;116;105;111;110].

(* exception = 'trypsin_exception' if enzyme == 'trypsin' else None *)
Definition c19_rules (name : str) : rule * option rule :=
  (match lookup name site_rules with Some r => r | None => [] end,
   if eq_seq name s_trypsin then lookup s_trypsin_exception site_rules else None).

(* [enzyme; lo?; hi?; exprs? ([[ [tx, v], ...]]); cutoff?; coding; kan; kac; keep_canon; deny? ([[seq...]])] *)
Definition c19_opts (v : val) : opts :=
  let rr := c19_rules (getS (argn 0 v)) in
  mkOpts
    (match getL (argn 3 v) with
     | rows :: _ => Some (map (fun r => (getS (argn 0 r), getZ (argn 1 r))) (getL rows))
     | [] => None end)
    (c19_optZ (argn 4 v))
    (getSS (argn 5 v))
    (getB (argn 6 v)) (getB (argn 7 v)) (getB (argn 8 v))
    (match getL (argn 9 v) with d :: _ => Some (getSS d) | [] => None end)
    (c19_optZ (argn 1 v)) (c19_optZ (argn 2 v))
    (fst rr) (snd rr).

Definition c19_res (r : res (option (seq * list str))) : val :=
  match r with
  | Err e => VL [VZ 1; VZ (err_code e)]
  | Ok None => VL [VZ 0; VL []]
  | Ok (Some (s, ls)) => VL [VZ 0; VL [ofS s; ofSS ls]]
  end.

(* [opts; [[seq; header]; ...]] -> per-peptide outcomes after de-duplication *)
Definition api_c19_filter (v : val) : val :=
  let o := c19_opts (argn 0 v) in
  let pool := map (fun p => (getS (argn 0 p), getS (argn 1 p))) (getL (argn 1 v)) in
  VL (map c19_res (filter_each_c o pool)).

(* header line -> [0; [printed entries]] | [1; err] *)
Definition api_c19_reprint (v : val) : val :=
  match parse_label (getS v) with
  | Ok ids => VL [VZ 0; ofSS (map print_ident ids)]
  | Err e => VL [VZ 1; VZ (err_code e)]
  end.

(* header line -> per entry facts [label; txs; fusion; circ; splice] *)
Definition api_c19_facts (v : val) : val :=
  match parse_label (getS v) with
  | Ok ids => VL [VZ 0; VL (map (fun i => match entry_facts i with
                                        | Ok e => VL [ofS (e_label e); ofSS (e_txs e); ofB (e_fusion e); ofB (e_circ e); ofB (e_splice e)]
                                        | Err er => VL [VZ (err_code er)] end) ids)]
  | Err e => VL [VZ 1; VZ (err_code e)]
  end.
