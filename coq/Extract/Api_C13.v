(* Oracle entry points for C13 (glue: decoding/encoding of protocol values; unverified, trusted). *)
From MoPep Require Import Model.Base Model.Gvf Gen.GvfConst Model.GvfGen.
Open Scope Z_scope.

Definition err_code (e : err) : Z :=
  match e with EValue => 1 | EKey => 2 | EIndex => 3 | EType => 4 | EUnicode => 5 end.
Definition of_res {A} (f : A -> val) (r : res A) : val :=
  match r with Ok a => VL [VZ 0; f a] | Err e => VL [VZ (err_code e); VL []] end.

(* aval: [0,str] | [1,int] | [2,[str...]] *)
Definition get_aval (v : val) : aval :=
  let t := getZ (argn 0 v) in
  if t =? 1 then AInt (getZ (argn 1 v))
  else if t =? 2 then AList (getSS (argn 1 v))
  else AStr (getS (argn 1 v)).
Definition of_aval (a : aval) : val :=
  match a with
  | AStr s => VL [VZ 0; ofS s]
  | AInt z => VL [VZ 1; VZ z]
  | AList l => VL [VZ 2; ofSS l]
  end.
(* record: [seqname,start,end,ref,alt,type,id,[[key,aval]...]] *)
Definition get_rec (v : val) : varrec :=
  mkVar (getS (argn 0 v)) (getZ (argn 1 v)) (getZ (argn 2 v)) (getS (argn 3 v)) (getS (argn 4 v))
        (getS (argn 5 v)) (getS (argn 6 v))
        (map (fun kv => (getS (argn 0 kv), get_aval (argn 1 kv))) (getL (argn 7 v))).
Definition of_rec (r : varrec) : val :=
  VL [ofS (v_seqname r); VZ (v_start r); VZ (v_end r); ofS (v_ref r); ofS (v_alt r);
      ofS (v_type r); ofS (v_id r);
      VL (map (fun kv => VL [ofS (fst kv); of_aval (snd kv)]) (v_attrs r))].

(* circ: [tx,[[s,e]...],[intron...],id,gene_id,gene_name,genomic] *)
Definition get_circ (v : val) : circ :=
  mkCirc (getS (argn 0 v)) (map (fun f => (getZ (argn 0 f), getZ (argn 1 f))) (getL (argn 1 v)))
         (getS (argn 2 v)) (getS (argn 3 v)) (getS (argn 4 v)) (getS (argn 5 v)) (getS (argn 6 v)).
Definition of_circ (c : circ) : val :=
  VL [ofS (c_tx c); VL (map (fun f => VL [VZ (fst f); VZ (snd f)]) (c_frags c)); ofS (c_intron c);
      ofS (c_id c); ofS (c_gene_id c); ofS (c_gene_name c); ofS (c_genomic c)].

(* [rec] -> res string *)
Definition api_c13_to_string (v : val) : val :=
  of_res ofS (to_string gen_cfg (get_rec (argn 0 v))).
(* [line] -> res rec *)
Definition api_c13_parse_line (v : val) : val :=
  of_res of_rec (line_to_variant_record gen_cfg (getS (argn 0 v))).
(* [rec] -> [res s1 ; res (s2)]  where s2 = to_string (parse (s1 + newline)) *)
Definition api_c13_wpw (v : val) : val :=
  let s1 := to_string gen_cfg (get_rec (argn 0 v)) in
  let s2 := bind s1 (fun s => bind (line_to_variant_record gen_cfg (s ++ [NL])) (to_string gen_cfg)) in
  VL [of_res ofS s1; of_res ofS s2].

Definition api_c13_circ_to_string (v : val) : val :=
  of_res ofS (circ_to_string circ_wkeys (get_circ (argn 0 v))).
Definition api_c13_circ_parse (v : val) : val :=
  of_res of_circ (line_to_circ circ_rkeys (getS (argn 0 v))).
Definition api_c13_circ_wpw (v : val) : val :=
  let s1 := circ_to_string circ_wkeys (get_circ (argn 0 v)) in
  let s2 := bind s1 (fun s => bind (line_to_circ circ_rkeys (s ++ [NL])) (circ_to_string circ_wkeys)) in
  VL [of_res ofS s1; of_res ofS s2].
(* the model of the code after the proposed fix D6: reader keys := writer keys *)
Definition api_c13_circ_wpw_fixed (v : val) : val :=
  let s1 := circ_to_string circ_wkeys (get_circ (argn 0 v)) in
  let s2 := bind s1 (fun s => bind (line_to_circ circ_wkeys (s ++ [NL])) (circ_to_string circ_wkeys)) in
  VL [of_res ofS s1; of_res ofS s2].
Definition api_c13_keys (_ : val) : val := VL [ofSS circ_wkeys; ofSS circ_rkeys; ofB shape_ok].

(* ---- files, pointers, pools ---- *)
Definition P2 := gen_parse2.
Definition of_rec2 (r : rec2) : val :=
  match r with inl v => VL [VZ 0; of_rec v] | inr c => VL [VZ 1; of_circ c] end.

Definition of_ptr (p : ptr) : val := VL [ofS (fst p); VZ (fst (snd p)); VZ (snd (snd p))].
Definition get_ptr (v : val) : ptr := (getS (argn 0 v), (getZ (argn 1 v), getZ (argn 2 v))).

(* [is_circ; lines] -> res [ptr...] *)
Definition api_c13_iterate_pointer (v : val) : val :=
  of_res (fun ps => VL (map of_ptr ps)) (iterate_pointer rec2 P2 key2 (getB (argn 0 v)) (getSS (argn 1 v))).

(* [is_circ; lines] -> res [checksum-placeholder lines] : the pointer lines indexGVF writes *)
Definition api_c13_index_lines (v : val) : val :=
  of_res (fun i => ofSS (snd i))
         (index_gvf rec2 P2 key2 (list Z) (fun _ => []) (getB (argn 0 v)) (getSS (argn 1 v))).

(* [is_circ; lines; actual_digest; idx] -> res [ptr...]
   idx = [] (no .idx file) | [[recorded_digest_or_[] , has_checksum, idx_lines]]
   the digest of the content is computed by the harness (hashlib) and handed in. *)
Definition api_c13_open (v : val) : val :=
  let ic := getB (argn 0 v) in
  let lines := getSS (argn 1 v) in
  let actual := getS (argn 2 v) in
  let idx := match getL (argn 3 v) with
             | [] => None
             | i :: _ => Some (if getB (argn 1 i) then Some (getS (argn 0 i)) else None, getSS (argn 2 i))
             end in
  of_res (fun ps => VL (map of_ptr ps))
         (open_file rec2 P2 key2 (list Z) eq_seq (fun _ => actual) ic lines idx).

(* [[ [is_circ; lines; [ptr...]] ...]; key] -> res [rec2...]   (pointer route) *)
Definition api_c13_pool_get (v : val) : val :=
  let files := map (fun f => (getB (argn 0 f), (concat (getSS (argn 1 f)), map get_ptr (getL (argn 2 f)))))
                   (getL (argn 0 v)) in
  of_res (fun rs => VL (map of_rec2 rs)) (pool_get rec2 P2 files (getS (argn 1 v))).

(* [[ [is_circ; lines] ...]; key] -> res [rec2...]   (linear scan route) *)
Definition api_c13_scan_get (v : val) : val :=
  let k := getS (argn 1 v) in
  let one f := bind (scan rec2 P2 (getB (argn 0 f)) (getSS (argn 1 f))) (with_key rec2 key2 k) in
  of_res (fun rs => VL (map of_rec2 rs))
         (bind (map_res one (getL (argn 0 v))) (fun ll => Ok (concat ll))).

(* the theorems' well-formedness hypotheses, so the harness can measure that its streams lie inside them *)
Definition api_c13_wf (v : val) : val := ofB (wf_rec gen_cfg (get_rec (argn 0 v))).
Definition api_c13_circ_wf (v : val) : val := ofB (wf_circ (get_circ (argn 0 v))).
