(* Oracle entry points for C08 (glue: decoding of protocol values; unverified, trusted). *)
From MoPep Require Import Model.Base Model.Rule Model.Digest Model.W2F Model.NovelOrf
                          Gen.Expasy Gen.Bio Gen.NovelOrfCfg Extract.Api_C10.
Open Scope Z_scope.

Definition c08_opt_list (v : val) : option (list seq) :=   (* [] = absent, [[l1; l2; ...]] = given *)
  match getL v with [] => None | x :: _ => Some (getSS x) end.

(* [coding_novel; incl_opt; excl_opt; min_len] *)
Definition c08_selopt (v : val) : selopt :=
  mkSelOpt (getB (argn 0 v)) (effective_incl (c08_opt_list (argn 1 v)))
           (effective_excl default_exclusion (c08_opt_list (argn 2 v))) (getZ (argn 3 v)).

(* [coding; biotype; in_proteome; len; dna] *)
Definition c08_tx (v : val) : txrec :=
  mkTx (mkTxSel (getB (argn 0 v)) (getS (argn 1 v)) (getB (argn 2 v)) (getZ (argn 3 v))) (getS (argn 4 v)).

Definition c08_entry (e : orf_entry) : val := VL [VZ (oe_start e); VZ (oe_end e); ofS (oe_seq e)].

(* mode: 0 = as the source reads today (Gen.NovelOrfCfg.coding_branch_skips), 1 = repaired, 2 = unfixed *)
Definition c08_skips (mode : Z) : bool :=
  if mode =? 1 then true else if mode =? 2 then false else coding_branch_skips.

(* [rule; exc; limits; selopt; w2f; prots [[s; nf]...]; txs; mode; orf_exc_override]
   orf_exc_override: [] = digest ORFs with the same exception as the pool; [x] = use x instead
   (only used by the harness to recognise the mechanism of finding D15)
   -> [raised; selected flags; must; may; listings (one per selected tx)] *)
Definition api_c08_novel (v : val) : val :=
  let r := get_rule (argn 0 v) in
  let e := resolve_exc (argn 1 v) in
  let lim := get_limits (argn 2 v) in
  let o := c08_selopt (argn 3 v) in
  let w2f := getB (argn 4 v) in
  let prots := map (fun p => (getS (argn 0 p), getB (argn 1 p))) (getL (argn 5 v)) in
  let txs := map c08_tx (getL (argn 6 v)) in
  let skips := c08_skips (getZ (argn 7 v)) in
  let e2 := match getL (argn 8 v) with [] => e | x :: _ => resolve_exc x end in
  if pool_raises protein_weights4 lim r e prots then VL [VZ 1] else
  let pl := pool protein_weights4 water4 lim r e prots in
  let sel := selected skips o txs in
  VL [VZ 0;
      VL (map (fun t => ofB (select_tx_gen skips o (tr_sel t))) txs);
      ofSS (novel_must protein_weights4 water4 lim r e2 codon_table w2f pl sel);
      ofSS (novel_may protein_weights4 water4 lim r e2 codon_table w2f pl sel);
      VL (map (fun t => VL (map c08_entry (orf_listing codon_table (tr_dna t)))) sel)].

(* [dna] -> [[start; end; seq] ...] *)
Definition api_c08_listing (v : val) : val :=
  VL (map c08_entry (orf_listing codon_table (getS (argn 0 v)))).

(* [p] -> W>F images in generation order *)
Definition api_c08_w2f (v : val) : val := ofSS (w2f_images (getS (argn 0 v))).

Definition api_c08_cfg (_ : val) : val :=
  VL [ofB cfg_ok; ofB coding_branch_known; ofB coding_branch_skips; VZ default_min_tx_length;
      ofSS default_exclusion; ofS orf_assignment_default; ofSS orf_assignment_choices].
