(* Oracle entry points for C04 (glue: decoding of protocol values; unverified, trusted). *)
From MoPep Require Import Model.Base Model.Rule Model.Digest Model.PepTable Gen.Expasy Gen.Bio.
From MoPep Require Import Extract.Api_C10.
Open Scope Z_scope.

Definition c04_opt_s (v : val) : option seq :=
  match getL v with [] => None | x :: _ => Some (getS x) end.

Definition c04_loc (v : val) : floc :=
  mkLoc (getZ (argn 0 v)) (getZ (argn 1 v)) (getZ (argn 2 v)) (getZ (argn 3 v)).

(* [query; [] | [ref]; [] | [ftype]; [] | [fid]; [] | [var]] *)
Definition c04_seg (v : val) : segment :=
  mkSeg (c04_loc (argn 0 v))
        (match getL (argn 1 v) with [] => None | x :: _ => Some (c04_loc x) end)
        (c04_opt_s (argn 2 v)) (c04_opt_s (argn 3 v)) (c04_opt_s (argn 4 v)).

(* [label; [seg; ...]] *)
Definition c04_anno (v : val) : anno := mkAnno (getS (argn 0 v)) (map c04_seg (getL (argn 1 v))).

Definition c04_of_load (r : load_result) : val :=
  match r with
  | LoadOk ls => VL [VZ 0; ofSS ls]
  | LoadKeyError => VL [VZ 1; VL []]
  | LoadValueError => VL [VZ 2; VL []]
  | LoadIndexError => VL [VZ 3; VL []]
  end.

Definition c04_of_table (t : table) : val :=
  VL [ ofS (t_file t);
       VL (map (fun kv => VL [ofS (fst kv); VL (map (fun se => VL [VZ (fst se); VZ (snd se)]) (snd kv))]) (t_index t));
       match write_fasta t with
       | FastaOk recs => VL [VZ 0; VL (map (fun r => VL [ofS (fst r); ofSS (snd r)]) recs)]
       | FastaErr e => VL [c04_of_load e; VL []]
       end ].

(* [[p; anno]; ...] -> table after add_peptide(p, anno) for each *)
Definition api_c04_adds (v : val) : val :=
  c04_of_table (run_adds (map (fun o => (getS (argn 0 o), c04_anno (argn 1 o))) (getL v))).

Definition c04_code (o : option bool) : Z :=
  match o with None => 2 | Some true => 1 | Some false => 0 end.

(* the callVariant loop with the harness driver's convention that an item whose is_valid raises is
   recorded (code 2) and skipped:  [pool; limits; [[p; [anno; ...]]; ...]] -> [trace; table] *)
Definition api_c04_table (v : val) : val :=
  let pool := getSS (argn 0 v) in
  let lim := get_limits (argn 1 v) in
  let items := map (fun o => (getS (argn 0 o), map c04_anno (getL (argn 1 o)))) (getL (argn 2 v)) in
  let trace := map (fun it => c04_code (is_valid protein_weights4 water4 pool lim (fst it))) items in
  let t := run_adds (accepted_ops protein_weights4 water4 pool lim items) in
  VL [VL (map VZ trace); c04_of_table t;
      VZ (match process_items protein_weights4 water4 pool lim empty_table items with
          | None => 1
          | Some t' => if eq_seq (t_file t') (t_file t) then 0 else 2
          end)].

(* [pool; limits; [[p; label; skip]; ...]] -> [trace; [[p; description]; ...]]  (a raising add is skipped) *)
Fixpoint c04_vpool_run (pool : list seq) (lim : limits) (vp : vpool) (ops : list (seq * seq * bool))
  : list Z * vpool :=
  match ops with
  | [] => ([], vp)
  | (p, l, skip) :: rest =>
      match vpool_add protein_weights4 water4 pool lim skip vp p l with
      | None => let r := c04_vpool_run pool lim vp rest in (2 :: fst r, snd r)
      | Some (vp', b) => let r := c04_vpool_run pool lim vp' rest in ((if b then 1 else 0) :: fst r, snd r)
      end
  end.

Definition api_c04_vpool (v : val) : val :=
  let pool := getSS (argn 0 v) in
  let lim := get_limits (argn 1 v) in
  let ops := map (fun o => (getS (argn 0 o), getS (argn 1 o), getB (argn 2 o))) (getL (argn 2 v)) in
  let r := c04_vpool_run pool lim [] ops in
  VL [VL (map VZ (fst r)); VL (map (fun pd => VL [ofS (fst pd); ofS (snd pd)]) (snd r))].

(* per-graph filter: [accepted; deny; limits; [p; ...]] -> codes *)
Definition api_c04_graph_valid (v : val) : val :=
  let acc := getSS (argn 0 v) in
  let deny := getSS (argn 1 v) in
  let lim := get_limits (argn 2 v) in
  VL (map (fun p => VZ (c04_code (graph_valid protein_weights4 water4 acc deny lim (getS p)))) (getL (argn 3 v))).

(* end-to-end hygiene with the C10 pool for the SAME resolved settings:
   [rule; exc; limits; prots; [fasta; ...]; limits_out] -> [raised; [[[flags per peptide]; nodup; ok]; ...]]
   (a fasta is the list of its sequences in file order).  `limits` carries the canonical side's threshold
   (a canonical peptide is kept when mass > min_mw), `limits_out` the written side's (a written peptide is
   kept when mass >= min_mw): for a real threshold T off the 1e-4 grid these are floor(T*1e4) and
   floor(T*1e4)+1; for T on the grid they coincide. *)
Definition api_c04_hygiene (v : val) : val :=
  let r := get_rule (argn 0 v) in
  let e := resolve_exc (argn 1 v) in
  let lim := get_limits (argn 2 v) in
  let prots := map (fun p => (getS (argn 0 p), getB (argn 1 p))) (getL (argn 3 v)) in
  let lim_out := get_limits (argn 5 v) in
  if pool_raises protein_weights4 lim r e prots then VL [VZ 1; VL []]
  else
    let pool := Digest.pool protein_weights4 water4 lim r e prots in
    VL [VZ 0;
        VL (map (fun f =>
                   let seqs := getSS f in
                   VL [VL (map (fun p => VL (map ofB (hygiene_flags protein_weights4 water4 pool lim_out p))) seqs);
                       ofB (nodup_seqs seqs);
                       ofB (hygiene_ok protein_weights4 water4 pool lim_out seqs)])
                (getL (argn 4 v)))].

(* str(int) and Python slicing, for direct comparison: [z] -> text ; [s; a; b] -> slice *)
Definition api_c04_dec (v : val) : val := ofS (dec (getZ v)).
Definition api_c04_slice (v : val) : val := ofS (py_slice (getS (argn 0 v)) (getZ (argn 1 v)) (getZ (argn 2 v))).

(* exact mass x 1e4 of each peptide, -1 when a letter is outside Biopython's table: [p; ...] -> [z; ...] *)
Definition api_c04_mass4 (v : val) : val :=
  VL (map (fun p => VZ (if valid_letters protein_weights4 (getS p) then mass4 protein_weights4 water4 (getS p) else -1)) (getL v)).
