(* Oracle entry points for C06 (glue; unverified, trusted). *)
From MoPep Require Import Model.Base Model.Batch Gen.BatchLoop.
Open Scope Z_scope.

(* [variant (0 = loop as written, 1 = repaired); threads; [[tx; skipped]; ...]]
   -> [batches; pending (gathered but never dispatched)] *)
Definition api_c06_batches (v : val) : val :=
  let threads := getZ (argn 1 v) in
  let l := map (fun p => (getZ (argn 0 p), getB (argn 1 p))) (getL (argn 2 v)) in
  let s := if getZ (argn 0 v) =? 0 then run_loop step_orig threads l else run_loop step_fix threads l in
  VL [ofSS (b_out s); ofS (b_pending s)].

(* the loop shape found in the current source (Gen/BatchLoop.v) *)
Definition api_c06_loop_variant (_ : val) : val := VZ loop_variant.
