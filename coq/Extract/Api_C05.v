(* Oracle entry points for C05 (glue: decoding of protocol values; unverified, trusted). *)
From MoPep Require Import Model.Base Model.Rule Model.Digest Model.Spec Model.W2F Model.SpecFlags
                          Gen.Expasy Gen.Bio Extract.Api_Spec.
Open Scope Z_scope.

Definition c05_flags (v : val) : flags :=
  mkFlags (getB (argn 0 v)) (getB (argn 1 v)) (getB (argn 2 v)).

(* [peptides] -> [mass x 10^4 ...]   (exact, Biopython's table) *)
Definition api_c05_mass4 (v : val) : val :=
  VL (map (fun p => VZ (mass4 protein_weights4 water4 (getS p))) (getL v)).

(* [x; [sect; w2f; orf]] -> products and forms of the UNMODIFIED transcript under the flags
   (the per-transcript denylist), deduplicated *)
Definition api_c05_ref_forms (v : val) : val :=
  ofSS (cv_dedup (fl_ref_products (cv_input (argn 0 v)) (c05_flags (argn 1 v)))).

(* [x; [sect; w2f; orf]; peptides] -> [p is permitted under the flags (member of fl_may_set) ...] *)
Definition api_c05_fl_realizable (v : val) : val :=
  let x := cv_input (argn 0 v) in
  let m := fl_may_set x (c05_flags (argn 1 v)) in
  VL (map (fun p => ofB (mem_seq (getS p) m)) (getL (argn 2 v))).

(* [x; [sect; w2f; orf]] -> fl_report_set, deduplicated *)
Definition api_c05_fl_report (v : val) : val :=
  ofSS (cv_dedup (fl_report_set (cv_input (argn 0 v)) (c05_flags (argn 1 v)))).

(* q -> its SECT forms and W2F images (for the header-based attribution) *)
Definition api_c05_forms (v : val) : val :=
  VL [ofSS (sect_forms (getS v)); ofSS (w2f_images (getS v))].

(* [x; [sect; w2f; orf]; peptides] -> [p is a form, under the switches, of a product of the look-behind-relaxed
   digestion (signature of D14b-lookbehind for flagged runs) ...] *)
Definition api_c05_fl_realizable_relaxed2 (v : val) : val :=
  let x := cv_input (argn 0 v) in
  let m := fl_relaxed2_set x (c05_flags (argn 1 v)) in
  VL (map (fun p => ofB (mem_seq (getS p) m)) (getL (argn 2 v))).
