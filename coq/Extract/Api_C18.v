(* Oracle entry points for C18 (glue: decoding of protocol values; unverified, trusted). *)
From MoPep Require Import Model.Base Model.Header Model.Filter Model.Split.
Open Scope Z_scope.

(* order key: [0; name] = str, [1; [names]] = frozenset *)
Definition c18_key (v : val) : okey :=
  if getZ (argn 0 v) =? 0 then KStr (getS (argn 1 v)) else KSet (getSS (argn 1 v)).
Definition c18_pairs (v : val) : list (str * str) :=
  map (fun p => (getS (argn 0 p), getS (argn 1 p))) (getL v).

(* common environment: [order; group; gvf_sources; tx2gene; labels] *)
Definition c18_order (v : val) : levels * list str :=
  mk_order (map c18_key (getL (argn 0 v))) (c18_pairs (argn 1 v)) (getSS (argn 2 v)).
Definition c18_env (v : val) : env :=
  mkEnv (c18_pairs (argn 3 v))
        (map (fun t => (getS (argn 0 t), getS (argn 1 t), getS (argn 2 t))) (getL (argn 4 v)))
        (c18_pairs (argn 1 v)).

Definition c18_files (v : val) : list (list (seq * list str)) :=
  map (fun f => map (fun p => (getS (argn 0 p), [getS (argn 1 p)])) (getL f)) (getL v).
Definition c18_merged (v : val) : list cpep :=
  map (fun p => (fst p, join 32 (snd p))) (merge_files (c18_files v)).

Definition c18_err (e : err) : val := VL [VZ 1; VZ (err_code e)].
Definition c18_key_val (k : okey) : val :=
  match k with KStr s => VL [VZ 0; ofS s] | KSet l => VL [VZ 1; ofSS l] end.

(* [env(5 fields); max_groups; additional; files] -> [0; [per-peptide]] | [1; err] *)
Definition api_c18_split (v : val) : val :=
  let ol := c18_order v in
  let en := c18_env v in
  let c := mkCfg (fst ol) (snd ol) (getZ (argn 5 v)) (map getSS (getL (argn 6 v))) in
  if negb (wild_ok (c_levels c)) then c18_err EValue
  else match mapM (validate_set (c_levels c)) (c_additional c) with
       | Err e => c18_err e
       | Ok _ =>
           VL [VZ 0; VL (map (fun p =>
                  match split_pep_full en c p with
                  | Err e => c18_err e
                  | Ok (k, (s, lz)) =>
                      VL [VZ 0; ofS k; ofS s; VL (map (fun x => VL [ofS (fst x); VL (map VZ (snd x))]) lz)]
                  end) (dedup (c18_merged (argn 7 v))))]
       end.

(* [env(5 fields); _; _; files] -> per-peptide summary key (source set) *)
Definition api_c18_summary (v : val) : val :=
  let ol := c18_order v in
  let en := summary_env (c18_env v) in
  VL (map (fun p => match summary_key_c en (fst ol) p with
                    | Err e => c18_err e
                    | Ok ss => VL [VZ 0; ofSS ss; ofS (set_str (fst ol) ss)]
                    end) (dedup (c18_merged (argn 7 v)))).

(* the order itself *)
Definition api_c18_order (v : val) : val :=
  let ol := c18_order v in
  VL [VL (map (fun kv => VL [c18_key_val (fst kv); VZ (snd kv)]) (fst ol)); ofSS (snd ol)].

(* files -> merged pool *)
Definition api_c18_merge (v : val) : val :=
  VL (map (fun p => VL [ofS (fst p); ofS (snd p)]) (c18_merged v)).

(* [decoy; suffix; headers; ids] -> [new headers; dict] *)
Definition api_c18_encode (v : val) : val :=
  let ids := getSS (argn 3 v) in
  let r := encode (fun n => nth n ids []) (getS (argn 0 v)) (getB (argn 1 v)) (getSS (argn 2 v)) in
  VL [ofSS (fst r); VL (map (fun p => VL [ofS (fst p); ofS (snd p)]) (snd r))].

(* [decoy; suffix; dict; encoded header] -> [] | [header] *)
Definition api_c18_decode (v : val) : val :=
  match decode (getS (argn 0 v)) (getB (argn 1 v)) (c18_pairs (argn 2 v)) (getS (argn 3 v)) with
  | Some h => VL [ofS h]
  | None => VL []
  end.

(* header -> printed entries (parse then print) *)
Definition api_c18_reprint (v : val) : val :=
  match parse_label (getS v) with
  | Ok ids => VL [VZ 0; ofSS (map print_ident ids)]
  | Err e => c18_err e
  end.
