(* Oracle entry points for C15, parser half (glue: decoding of protocol values; unverified, trusted). *)
From MoPep Require Import Model.Base Model.Rmats Model.Fusion.
Open Scope Z_scope.

Definition c15_exon (v : val) : exon := (getZ (argn 0 v), getZ (argn 1 v)).
Definition c15_tx (v : val) : tx := mkTx (map c15_exon (getL (argn 2 v))) (getZ (argn 0 v)) (getZ (argn 1 v)).
(* [strand; gs; ge; [[tstart; tend; exons] ...]; chrom index] *)
Definition c15_gene (v : val) : gene :=
  mkGene (getZ (argn 0 v)) (getZ (argn 1 v)) (getZ (argn 2 v)) (map c15_tx (getL (argn 3 v))).
Definition c15_wgene (v : val) : wgene := mkW (c15_gene v) (getZ (argn 4 v)).
Definition c15_tool (v : val) : tool := let k := getZ v in if k =? 0 then Star else if k =? 1 then FC else Arriba.
Definition c15_err (e : ferr) : Z := match e with FGeneNotFound => 1 | FValue => 2 | FIndex => 3 end.
Definition c15_frec (r : frec) : val := VL [VZ (f_dtx r); VZ (f_atx r); VZ (f_pos r); VZ (f_apos r); VZ (f_ref r)].
Definition c15_frec_of (v : val) : frec :=
  mkF (getZ (argn 0 v)) (getZ (argn 1 v)) (getZ (argn 2 v)) (getZ (argn 3 v)) (getZ (argn 4 v)).

(* [tool; genes; chroms; dg; ag; L; R] -> [code; records] *)
Definition api_c15_convert (v : val) : val :=
  match convert (c15_tool (argn 0 v)) (map c15_wgene (getL (argn 1 v))) (getSS (argn 2 v))
                (getZ (argn 3 v)) (getZ (argn 4 v)) (getZ (argn 5 v)) (getZ (argn 6 v)) with
  | FOk rs => VL [VZ 0; VL (map c15_frec rs)]
  | FErr e => VL [VZ (c15_err e); VL []]
  end.

Definition c15_row (v : val) : row :=
  mkRow (getZ (argn 0 v)) (getZ (argn 1 v)) (getZ (argn 2 v)) (getZ (argn 3 v)) (getZ (argn 4 v))
        (getZ (argn 5 v)) (getZ (argn 6 v)) (getZ (argn 7 v)) (getZ (argn 8 v)).
(* [tool; genes; chroms; [o1; o2; o3; skip_failed]; rows] -> [code; [[dg; ag; L; R; frec] ...]; tally] *)
Definition api_c15_cli (v : val) : val :=
  let o := argn 3 v in
  match cli (c15_tool (argn 0 v)) (map c15_wgene (getL (argn 1 v))) (getSS (argn 2 v))
            (mkOpts (getZ (argn 0 o)) (getZ (argn 1 o)) (getZ (argn 2 o)) (getB (argn 3 o)))
            (map c15_row (getL (argn 4 v))) with
  | FOk (recs, t) =>
      VL [VZ 0;
          VL (map (fun p => VL [VZ (r_dg (fst p)); VZ (r_ag (fst p)); VZ (r_L (fst p)); VZ (r_R (fst p)); c15_frec (snd p)]) recs);
          VL [VZ (t_total t); VZ (t_succeed t); VZ (t_skipped t); VZ (t_invalid_gene t); VZ (t_invalid_pos t);
              VZ (t_insufficient t); VZ (t_antisense t)]]
  | FErr e => VL [VZ (c15_err e); VL []; VL []]
  end.

(* [dgene; dchrom; dexons; agene; achrom; aexons; frec] -> [] | [seq] *)
Definition api_c15_apply (v : val) : val :=
  match fusion_apply (c15_gene (argn 0 v)) (getS (argn 1 v)) (map c15_exon (getL (argn 2 v)))
                     (c15_gene (argn 3 v)) (getS (argn 4 v)) (map c15_exon (getL (argn 5 v)))
                     (c15_frec_of (argn 6 v)) with
  | None => VL []
  | Some s => VL [ofS s]
  end.
(* [dstrand; dchrom; dexons; p; astrand; achrom; aexons; q] -> seq *)
Definition api_c15_fused (v : val) : val :=
  ofS (fused_seq (getZ (argn 0 v)) (getS (argn 1 v)) (map c15_exon (getL (argn 2 v))) (getZ (argn 3 v))
                 (getZ (argn 4 v)) (getS (argn 5 v)) (map c15_exon (getL (argn 6 v))) (getZ (argn 7 v))).
