(* Oracle entry points for the auxiliary site helpers (C10, second file). *)
From MoPep Require Import Model.Base Model.Rule Model.Digest Model.SitesExtra Gen.Expasy.
From MoPep Require Import Extract.Api_C10.
Open Scope Z_scope.

Definition get_given (v : val) : option (list nat) :=
  match getL v with
  | [] => None                                  (* [] = exception_sites=None *)
  | x :: _ => Some (map Z.to_nat (getS x))      (* [[..]] = explicit list *)
  end.

Definition pair_list (l : list (nat * (nat * nat))) : val :=
  VL (map (fun sr => VL [VZ (Z.of_nat (fst sr));
                          VL [VZ (Z.of_nat (fst (snd sr))); VZ (Z.of_nat (snd (snd sr)))]]) l).

(* [rule; exc; given; s] *)
Definition api_c10_all_cleave_stop (v : val) : val :=
  nat_list (find_all_cleave_and_stop_sites (get_rule (argn 0 v)) (resolve_exc (argn 1 v)) (get_given (argn 2 v)) (getS (argn 3 v))).

Definition api_c10_all_cleave_stop_range (v : val) : val :=
  let r2 := match lookup (getS (argn 0 v)) range_rules with Some x => x | None => [] end in
  match find_all_cleave_and_stop_sites_with_range (get_rule (argn 0 v)) r2 (resolve_exc (argn 1 v)) (get_given (argn 2 v)) (getS (argn 3 v)) with
  | None => VL [VZ 1; VL []]
  | Some l => VL [VZ 0; pair_list l]
  end.

Definition api_c10_first_cleave_stop (v : val) : val :=
  VZ (find_first_cleave_or_stop_site (get_rule (argn 0 v)) (resolve_exc (argn 1 v)) (get_given (argn 2 v)) (getS (argn 3 v))).

(* [rule; exc; start; s] *)
Definition api_c10_first_cleave (v : val) : val :=
  VZ (find_first_enzymatic_cleave_site (get_rule (argn 0 v)) (resolve_exc (argn 1 v)) (Z.to_nat (getZ (argn 2 v))) (getS (argn 3 v))).

(* [exc; s] *)
Definition api_c10_exception_sites (v : val) : val :=
  nat_list (exception_sites (resolve_exc (argn 0 v)) (getS (argn 1 v))).

(* all helpers at once: [[rule;exc;given;s]; [rule;exc;start;s]; [exc;s]] *)
Definition api_c10_aux (v : val) : val :=
  VL [api_c10_all_cleave_stop (argn 0 v); api_c10_all_cleave_stop_range (argn 0 v);
      api_c10_first_cleave_stop (argn 0 v); api_c10_first_cleave (argn 1 v); api_c10_exception_sites (argn 2 v)].
