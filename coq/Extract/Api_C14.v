(* Oracle entry points for C14 (glue: decoding of protocol values; unverified, trusted). *)
From MoPep Require Import Model.Base Model.Vep.
Open Scope Z_scope.

Definition c14_pair (v : val) : Z * Z := (getZ (argn 0 v), getZ (argn 1 v)).

Definition c14_enc_vrec (r : res vrec) : val :=
  match r with
  | Ok x => VL [VZ 0; VZ (vr_start x); VZ (vr_end x); ofS (vr_ref x); ofS (vr_alt x); VZ (vr_type x)]
  | ErrValue => VL [VZ 1]
  | ErrStart => VL [VZ 2]
  | ErrStop => VL [VZ 3]
  | ErrIndex => VL [VZ 4]
  end.

(* [fix; strand; gstart; gend; tstart; tend; nf; chrom; [[a; b; has_allele; allele]; ...]] *)
Definition api_c14_vep (v : val) : val :=
  let fx := getB (argn 0 v) in
  let g := mkGene (getZ (argn 1 v)) (getZ (argn 2 v)) (getZ (argn 3 v)) in
  let t := mkTx (getZ (argn 4 v)) (getZ (argn 5 v)) (getB (argn 6 v)) in
  let chrom := getS (argn 7 v) in
  VL (map (fun e =>
        let al := if getB (argn 2 e) then Some (getS (argn 3 e)) else None in
        c14_enc_vrec (convert fx g t chrom (mkVep (getZ (argn 0 e)) (getZ (argn 1 e)) al)))
      (getL (argn 8 v))).

(* [strand; gstart; gend; chrom] -> gene sequence ([] on error) *)
Definition api_c14_gene_seq (v : val) : val :=
  match gene_seq (mkGene (getZ (argn 0 v)) (getZ (argn 1 v)) (getZ (argn 2 v))) (getS (argn 3 v)) with
  | Ok s => ofS s
  | _ => VL []
  end.

Definition c14_thr (v : val) : thr :=
  mkThr (getZ (argn 0 v)) (getZ (argn 1 v)) (getZ (argn 2 v)) (getZ (argn 3 v)) (getZ (argn 4 v)).

Definition c14_redi (v : val) : redi :=
  mkRedi (getZ (argn 0 v)) (getS (argn 1 v)) (map c14_pair (getL (argn 2 v)))
         (match getL (argn 3 v) with [] => None | x :: _ => Some (getZ x) end).

(* [thr; row] -> [0; [[ref; alt]; ...]] or [1] *)
Definition api_c14_valid_subs (v : val) : val :=
  match get_valid_subs (c14_thr (argn 0 v)) (c14_redi (argn 1 v)) with
  | None => VL [VZ 1]
  | Some vs => VL [VZ 0; VL (map (fun s => VL [VZ (fst s); VZ (snd s)]) vs)]
  end.

(* [mode; thr; [[row; [[id; [strand; gstart; gend]; [[s;e];...]]; ...]]; ...]] -> per row
   [0; [[tx; pos; ref; alt]; ...]] or [code] *)
Definition api_c14_redi (v : val) : val :=
  let mode := getZ (argn 0 v) in
  let th := c14_thr (argn 1 v) in
  VL (map (fun rw =>
        let r := c14_redi (argn 0 rw) in
        let txs := map (fun x => mkRtx (getZ (argn 0 x))
                   (mkGene (getZ (argn 0 (argn 1 x))) (getZ (argn 1 (argn 1 x))) (getZ (argn 2 (argn 1 x))))
                   (map c14_pair (getL (argn 2 x)))) (getL (argn 1 rw)) in
        match redi_loop mode th r txs with
        | Ok recs => VL [VZ 0; VL (map (fun q => match q with (a, b, c, d) => VL [VZ a; VZ b; VZ c; VZ d] end) recs)]
        | ErrValue => VL [VZ 1]
        | ErrStart => VL [VZ 2]
        | ErrStop => VL [VZ 3]
        | ErrIndex => VL [VZ 4]
        end)
      (getL (argn 2 v))).
