(* Oracle entry points for C11 (glue: decoding of protocol values; unverified, trusted). *)
From MoPep Require Import Model.Base Model.Anno Model.PtrCache Model.GtfPtr Gen.AnnoConst.
Open Scope Z_scope.

Definition c11_err_code (e : err) : Z :=
  match e with
  | EIntron => 1 | ERange => 2 | EStrand => 3 | EValue => 4 | EIndex => 5 | EUnbound => 6 | EType => 7
  end.

Definition c11_ofres (r : res Z) : val :=
  match r with Ok z => VL [VZ 0; VZ z] | Err e => VL [VZ (c11_err_code e)] end.

Definition c11_pair (p : val) : Z * Z := (getZ (argn 0 p), getZ (argn 1 p)).
Definition c11_exons (v : val) : list exon := map c11_pair (getL v).
Definition c11_cds (v : val) : list cds :=
  map (fun p => mkCds (getZ (argn 0 p)) (getZ (argn 1 p))
                      (match getL (argn 2 p) with [] => None | x :: _ => Some (getZ x) end)) (getL v).
Definition c11_secs (v : val) : list (Z * Z * Z) :=
  map (fun p => (getZ (argn 0 p), getZ (argn 1 p), getZ (argn 2 p))) (getL v).
Definition c11_ofpairs (l : list (Z * Z)) : val := VL (map (fun p => VL [VZ (fst p); VZ (snd p)]) l).

Definition api_c11_consts (_ : val) : val :=
  VL [ofB anno_const_ok; VZ gene_cache_size; VZ tx_cache_size].

(* [exons] *)
Definition api_c11_wf (v : val) : val := ofB (wf (c11_exons (argn 0 v))).

(* [exons; positions] *)
Definition api_c11_exonic_many (v : val) : val :=
  VL (map (fun g => ofB (exonic (c11_exons (argn 0 v)) g)) (getS (argn 1 v))).

(* [strand; exons; positions] *)
Definition api_c11_g2tx_many (v : val) : val :=
  let st := getZ (argn 0 v) in let ex := c11_exons (argn 1 v) in
  VL (map (fun g => c11_ofres (g2tx st ex g)) (getS (argn 2 v))).

Definition api_c11_tx2g_many (v : val) : val :=
  let st := getZ (argn 0 v) in let ex := c11_exons (argn 1 v) in
  VL (map (fun i => c11_ofres (tx2g st ex i)) (getS (argn 2 v))).

(* [strand; gs; ge; positions] *)
Definition api_c11_g2gene_many (v : val) : val :=
  VL (map (fun g => c11_ofres (g2gene (getZ (argn 0 v)) (getZ (argn 1 v)) (getZ (argn 2 v)) g)) (getS (argn 3 v))).

Definition api_c11_gene2g_many (v : val) : val :=
  VL (map (fun i => c11_ofres (gene2g (getZ (argn 0 v)) (getZ (argn 1 v)) (getZ (argn 2 v)) i)) (getS (argn 3 v))).

(* [gstrand; gs; ge; member; tstrand; exons; positions] *)
Definition api_c11_gene2tx_many (v : val) : val :=
  VL (map (fun i => c11_ofres (gene2tx (getZ (argn 0 v)) (getZ (argn 1 v)) (getZ (argn 2 v)) (getB (argn 3 v))
                                       (getZ (argn 4 v)) (c11_exons (argn 5 v)) i)) (getS (argn 6 v))).

(* [strand; exons; cds; utr; secs; chrom] -> [code] | [0; seq; orf; secs] *)
Definition api_c11_txseq (v : val) : val :=
  match transcript_sequence dna_complement (getZ (argn 0 v)) (c11_exons (argn 1 v)) (c11_cds (argn 2 v))
                            (c11_exons (argn 3 v)) (c11_secs (argn 4 v)) (getS (argn 5 v)) with
  | Err e => VL [VZ (c11_err_code e)]
  | Ok t => VL [VZ 0; ofS (t_seq t);
                match t_orf t with None => VL [] | Some (a, b) => VL [VZ a; VZ b] end;
                c11_ofpairs (t_sec t)]
  end.

(* [strand; gs; ge; chrom] *)
Definition api_c11_geneseq (v : val) : val :=
  match gene_seq dna_complement (getZ (argn 0 v)) (getZ (argn 1 v)) (getZ (argn 2 v)) (getS (argn 3 v)) with
  | Err e => VL [VZ (c11_err_code e)]
  | Ok s => VL [VZ 0; ofS s]
  end.

(* cache histories.  [limit; [[k;v]...]; keys; fixed] -> per access [code; value; deque; cached keys]
   code 0 = value returned, 1 = KeyError at lookup, 2 = KeyError at eviction *)
Definition c11_ofgres (r : gres) : list val :=
  match r with RVal x => [VZ 0; VZ x] | RKeyLookup => [VZ 1; VZ 0] | RKeyEvict => [VZ 2; VZ 0] end.

Fixpoint c11_trace (limit : Z) (g : cstate -> Z -> cstate * gres) (s : cstate) (ks : list Z) : list val :=
  match ks with
  | [] => []
  | k :: t =>
      let '(s', r) := g s k in
      VL (c11_ofgres r ++ [ofS (dq s'); ofS (map fst (cache s')); ofB (cache_inv limit s')]) ::
      c11_trace limit g s' t
  end.

Definition api_c11_cache_run (v : val) : val :=
  let limit := getZ (argn 0 v) in
  let load := load_of (map c11_pair (getL (argn 1 v))) in
  let g := if getB (argn 3 v) then get_fixed limit load else get limit load in
  VL (c11_trace limit g empty (getS (argn 2 v))).

(* byte-range pointers.  lines = [[bytes; kind; key] ...], kind 0 = comment, 1 = gene record, 2 = other record
   -> pointers in yield order [[isgene; key; start; end; transcripts] ...] *)
Definition c11_line (v : val) : line :=
  (getS (argn 0 v),
   let k := getZ (argn 1 v) in
   if k =? 1 then LGene (getZ (argn 2 v)) else if k =? 2 then LRec (getZ (argn 2 v)) else LComment).

Definition api_c11_pointers (v : val) : val :=
  VL (map (fun p => VL [ofB (p_isgene p); VZ (p_key p); VZ (p_start p); VZ (p_end p); ofS (p_txs p)])
          (iterate (map c11_line (getL (argn 0 v))))).

(* [lines; start; end] -> the bytes *Pointer.load reads *)
Definition api_c11_ptr_load (v : val) : val :=
  ofS (load_range (map c11_line (getL (argn 0 v))) (mkPtr false 0 (getZ (argn 1 v)) (getZ (argn 2 v)) [])).

(* [strand; exons; cds; chrom] -> [code] | [0; seq; ref_start]   (get_cdna_sequence) *)
Definition api_c11_cdna (v : val) : val :=
  match cdna_sequence dna_complement (getZ (argn 0 v)) (c11_exons (argn 1 v)) (c11_cds (argn 2 v)) (getS (argn 3 v)) with
  | Err e => VL [VZ (c11_err_code e)]
  | Ok (s, r) => VL [VZ 0; ofS s; VZ r]
  end.
