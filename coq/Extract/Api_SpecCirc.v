(* Oracle entry points for circRNA records (glue; Model/SpecCirc.v). *)
From MoPep Require Import Model.Base Model.Rule Model.Digest Model.Spec Model.SpecCirc Extract.Api_Spec Gen.Bio.
Open Scope Z_scope.

(* c = [gene; [[s; e]; ...]; [[s; e; alt; ok]; ...]; rule; exc; [k;mw4;minlen;maxlen]; prots] *)
Definition cv_circ (v : val) : circ_in :=
  let r := cv_rule (argn 3 v) in
  let e := cv_exc (argn 4 v) in
  let lim := cv_limits (argn 5 v) in
  let prots := map (fun p => (getS (argn 0 p), getB (argn 1 p))) (getL (argn 6 v)) in
  mkCircIn (getS (argn 0 v)) (map (fun f => (getZ (argn 0 f), getZ (argn 1 f))) (getL (argn 1 v)))
           (map cv_var (getL (argn 2 v))) r e lim (pool protein_weights4 water4 lim r e prots).

(* [c; peptides] -> [realizable_circ c p ...] *)
Definition api_cv_circ_realizable (v : val) : val :=
  let m := circ_set (cv_circ (argn 0 v)) in
  VL (map (fun p => ofB (mem_seq (getS p) m)) (getL (argn 1 v))).

(* [c; x] -> must_circ_set (deduplicated); x = linear input of the circRNA's transcript *)
Definition api_cv_circ_must (v : val) : val :=
  ofSS (cv_dedup (must_circ_set (cv_circ (argn 0 v)) (cv_input (argn 1 v)))).

(* c -> one turn of the circle (diagnosis) *)
Definition api_cv_circ_turn (v : val) : val :=
  let c := cv_circ v in ofS (circ_turn (c_gene c) (c_frags c)).

(* c -> records in circle coordinates, loose / strict (diagnosis) *)
Definition api_cv_circ_vars (v : val) : val :=
  let c := cv_circ v in
  VL (map (fun l => VL (map (fun w => VL [VZ (v_s w); VZ (v_e w); ofS (v_alt w); ofB (v_ok w)]) l))
          [circ_vars true c; circ_vars false c]).

(* [c; peptides] -> realizable when the records are chosen independently in each of the four copies
   (diagnosis / finding signature) *)
Definition api_cv_circ_realizable_mixed (v : val) : val :=
  let c := cv_circ (argn 0 v) in
  let x := circ_linear true c in
  let m := may_products x [] ++ may_set x in
  VL (map (fun p => ofB (mem_seq (getS p) m)) (getL (argn 1 v))).

(* [c; peptides] -> realizable on the circle when look-behind-dependent rule sites are optional
   (signature of the known finding D14b-lookbehind, Spec.relaxed2_products_ctx) *)
Definition api_cv_circ_realizable_relaxed2 (v : val) : val :=
  let c := cv_circ (argn 0 v) in
  let x := circ_linear true c in
  let m := flat_map (fun h => let hs := circ_hap c h in
                       flat_map (fun st => relaxed2_products_ctx x false (upstream_rl hs st) (fst (translate_from hs st [])))
                                (atg_positions hs 0))
                    ([] :: haplotypes false (circ_vars true c)) in
  VL (map (fun p => ofB (mem_seq (getS p) m)) (getL (argn 1 v))).
