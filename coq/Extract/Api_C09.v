(* Oracle entry points for C09 (glue: decoding of protocol values; unverified, trusted). *)
From MoPep Require Import Model.Base Model.Rule Model.Digest Model.W2F Model.NovelOrf Model.Anno Model.AltTrans
                          Gen.Expasy Gen.Bio Extract.Api_C10.
Open Scope Z_scope.

(* [dna (whole transcript); cds_start; secs (transcript positions); nf; end_nf] *)
Definition c09_cds (v : val) : cdsrec :=
  let dna := getS (argn 0 v) in
  let cs := Z.to_nat (getZ (argn 1 v)) in
  let P := translate_cds codon_table (getS (argn 2 v)) (getZ (argn 1 v)) (skipn cs dna) in
  let fr := frame_tr codon_table dna cs in
  mkCdsRec P (getB (argn 3 v)) (getB (argn 4 v))
           (rev (firstn (Nat.div cs 3) fr)) (skipn (Nat.div cs 3 + length P) fr).

(* [rule; exc; limits; sect; w2f; prots [[s; nf]...]; cds records] -> [raised; must; may; proteins] *)
Definition api_c09_alt (v : val) : val :=
  let r := get_rule (argn 0 v) in
  let e := resolve_exc (argn 1 v) in
  let lim := get_limits (argn 2 v) in
  let sect := getB (argn 3 v) in
  let w2f := getB (argn 4 v) in
  let prots := map (fun p => (getS (argn 0 p), getB (argn 1 p))) (getL (argn 5 v)) in
  let cs := map c09_cds (getL (argn 6 v)) in
  if pool_raises protein_weights4 lim r e prots then VL [VZ 1] else
  let pl := pool protein_weights4 water4 lim r e prots in
  VL [VZ 0;
      ofSS (alt_must protein_weights4 water4 lim r e sect w2f pl cs);
      ofSS (alt_may protein_weights4 water4 lim r e sect w2f pl cs);
      ofSS (map cr_prot cs)].

(* [rule; exc; limits; cds record; sect_opt ([] | [u]); w2f positions (1-based); q] -> bool *)
Definition api_c09_header (v : val) : val :=
  let r := get_rule (argn 0 v) in
  let e := resolve_exc (argn 1 v) in
  let lim := get_limits (argn 2 v) in
  let c := c09_cds (argn 3 v) in
  let so := match getL (argn 4 v) with [] => None | x :: _ => Some (Z.to_nat (getZ x)) end in
  let ws := map Z.to_nat (getS (argn 5 v)) in
  ofB (header_ok protein_weights4 water4 lim r e c so ws (getS (argn 6 v))).

Definition c09_exons (v : val) : list exon := map (fun x => (getZ (argn 0 x), getZ (argn 1 x))) (getL v).

(* [tstrand; exons; gstrand; gs; ge; pos] -> [ok; n] *)
Definition api_c09_sect_id (v : val) : val :=
  match sect_id (getZ (argn 0 v)) (c09_exons (argn 1 v)) (getZ (argn 2 v)) (getZ (argn 3 v)) (getZ (argn 4 v))
                (getZ (argn 5 v)) with
  | Ok n => VL [VZ 1; VZ n]
  | Err _ => VL [VZ 0; VZ 0]
  end.

(* [valid sequences (stand-in for is_valid_seq); start; secs; s] -> [[u+1 | 0, seq] ...] *)
Definition api_c09_node_tmod (v : val) : val :=
  let ok := getSS (argn 0 v) in
  VL (map (fun x => VL [VZ (match fst x with None => 0 | Some u => Z.of_nat u + 1 end); ofS (snd x)])
          (node_tmod (fun q => mem_seq q ok) (getB (argn 1 v)) (map Z.to_nat (getS (argn 2 v))) (getS (argn 3 v)))).
