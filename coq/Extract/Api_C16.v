(* Oracle entry points for C16 (glue: decoding of protocol values; unverified, trusted). *)
From MoPep Require Import Model.Base Model.Rmats.
Open Scope Z_scope.

Definition c16_exon (v : val) : exon := (getZ (argn 0 v), getZ (argn 1 v)).
Definition c16_tx (v : val) : tx := mkTx (map c16_exon (getL (argn 2 v))) (getZ (argn 0 v)) (getZ (argn 1 v)).
(* [strand; gs; ge; [[tstart; tend; [[s;e]...]] ...]] *)
Definition c16_gene (v : val) : gene :=
  mkGene (getZ (argn 0 v)) (getZ (argn 1 v)) (getZ (argn 2 v)) (map c16_tx (getL (argn 3 v))).

Definition c16_kind (k : rkind) : Z := match k with KDel => 0 | KIns => 1 | KSub => 2 end.
Definition c16_rec (r : rec) : val :=
  VL [VZ (c16_kind (r_kind r)); VZ (r_src r); VZ (r_tx r); VZ (r_start r); VZ (r_end r); VZ (r_ref r);
      VZ (r_S r); VZ (r_E r); VZ (r_DS r); VZ (r_DE r); VZ (r_gp1 r); VZ (r_gp2 r)].
Definition c16_rec_of (v : val) : rec :=
  let k := getZ (argn 0 v) in
  mkRec (if k =? 0 then KDel else if k =? 1 then KIns else KSub) (getZ (argn 1 v)) (getZ (argn 2 v))
        (getZ (argn 3 v)) (getZ (argn 4 v)) (getZ (argn 5 v)) (getZ (argn 6 v)) (getZ (argn 7 v))
        (getZ (argn 8 v)) (getZ (argn 9 v)) (getZ (argn 10 v)) (getZ (argn 11 v)).
Definition c16_err (e : err) : Z := match e with EValue => 1 | EIndex => 2 | EUnmodelled => 3 end.
Definition c16_out (r : res (list Z * list rec)) : val :=
  match r with
  | Ok (id, rs) => VL [VZ 0; ofS id; VL (map c16_rec rs)]
  | Err e => VL [VZ (c16_err e); VL []; VL []]
  end.

(* [gene; gene_seq; type(0 SE,1 A5SS,2 A3SS,3 MXE,4 RI); cols; [ijc; sjc; min_ijc; min_sjc]] *)
Definition api_c16_convert (v : val) : val :=
  let g := c16_gene (argn 0 v) in
  let gs := getS (argn 1 v) in
  let ty := getZ (argn 2 v) in
  let c := fun n => getZ (argn n (argn 3 v)) in
  let k := argn 4 v in
  let cn := mkCounts (getZ (argn 0 k)) (getZ (argn 1 k)) (getZ (argn 2 k)) (getZ (argn 3 k)) in
  c16_out
   (if ty =? 0 then se_convert g gs (c 0%nat) (c 1%nat) (c 2%nat) (c 3%nat) (c 4%nat) (c 5%nat) cn
    else if ty =? 1 then ss_convert true g gs (c 0%nat) (c 1%nat) (c 2%nat) (c 3%nat) (c 4%nat) (c 5%nat) cn
    else if ty =? 2 then ss_convert false g gs (c 0%nat) (c 1%nat) (c 2%nat) (c 3%nat) (c 4%nat) (c 5%nat) cn
    else if ty =? 3 then mxe_convert g gs (c 0%nat) (c 1%nat) (c 2%nat) (c 3%nat) (c 4%nat) (c 5%nat) (c 6%nat) (c 7%nat) cn
    else ri_convert g gs (c 3%nat) (c 4%nat) cn).

(* declarative side: [strand; gs; ge; exons; chrom; record] -> [] | [seq] *)
Definition api_c16_apply (v : val) : val :=
  let strand := getZ (argn 0 v) in let gs := getZ (argn 1 v) in let ge := getZ (argn 2 v) in
  let ex := map c16_exon (getL (argn 3 v)) in
  let chrom := getS (argn 4 v) in
  match apply_record (gene2tx strand gs ge ex) (tx_seq strand chrom ex) (gene_seq strand chrom gs ge)
                     (c16_rec_of (argn 5 v)) with
  | None => VL []
  | Some s => VL [ofS s]
  end.

Definition c16_optex (o : option (list exon)) : val :=
  match o with None => VL [] | Some l => VL [VL (map (fun x => VL [VZ (fst x); VZ (snd x)]) l)] end.
(* [exons; kind; args...] -> [] | [exons]  kind 0 SE [U;E;D], 1 ss [at_end; from; to; flank], 3 MXE [U;X;Y;D], 4 RI [ue; ds] *)
Definition api_c16_alt (v : val) : val :=
  let ex := map c16_exon (getL (argn 0 v)) in
  let k := getZ (argn 1 v) in
  let a := argn 2 v in
  c16_optex
   (if k =? 0 then alt_se ex (c16_exon (argn 0 a)) (c16_exon (argn 1 a)) (c16_exon (argn 2 a))
    else if k =? 1 then alt_ss ex (getB (argn 0 a)) (getZ (argn 1 a)) (getZ (argn 2 a)) (getZ (argn 3 a))
    else if k =? 3 then alt_mxe ex (c16_exon (argn 0 a)) (c16_exon (argn 1 a)) (c16_exon (argn 2 a)) (c16_exon (argn 3 a))
    else alt_ri ex (getZ (argn 0 a)) (getZ (argn 1 a))).

(* CLI set semantics: [[record...]] in insertion order -> records kept *)
Definition api_c16_dedup_tx (v : val) : val :=
  VL (map c16_rec (dedup_first same_key_tx [] (map c16_rec_of (getL v)))).
