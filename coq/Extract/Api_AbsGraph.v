(* Oracle entry points for the graph-stage correspondence (glue: decoding of protocol values; unverified, trusted).
   The checks themselves are the definitions of Model/AbsGraph.v. *)
From MoPep Require Import Model.Base Model.Rule Model.Digest Model.Spec Model.AbsGraph Extract.Api_Spec.
Open Scope Z_scope.

Definition ag_nats (v : val) : list nat := map (fun z => Z.to_nat (getZ z)) (getL v).
Definition ag_ofnats (l : list nat) : val := VL (map (fun n => VZ (Z.of_nat n)) l).

(* graph = [[id; label; vids; succs]; ...] *)
Definition ag_graph (v : val) : graph :=
  map (fun e => (Z.to_nat (getZ (argn 0 e)), mkNode (getS (argn 1 e)) (getS (argn 2 e)) (ag_nats (argn 3 e)))) (getL v).

Definition ag_word (w : seq * list Z) : val := VL [ofS (fst w); ofS (snd w)].
Definition ag_lang_of (g : graph) (starts : list nat) : list (seq * list Z) := flat_map (lang g) starts.
Definition ag_take {A} (n : nat) (l : list A) : list A := firstn n l.

(* [g; starts] -> [topo; [[label; vids]; ...]] *)
Definition api_ag_lang (v : val) : val :=
  let g := ag_graph (argn 0 v) in
  VL [ofB (topo g); VL (map ag_word (ag_lang_of g (ag_nats (argn 1 v))))].

(* stage (a).  [x; g; starts; off; complete?] ->
     [topo; number of paths; unsound words [[label; vids]; ...]; masks of the obliged haplotypes no path spells] *)
Definition api_ag_tvg (v : val) : val :=
  let x := cv_input (argn 0 v) in
  let g := ag_graph (argn 1 v) in
  let off := Z.to_nat (getZ (argn 3 v)) in
  let ws := ag_lang_of g (ag_nats (argn 2 v)) in
  VL [ofB (topo g); VZ (Z.of_nat (length ws));
      VL (map ag_word (ag_take 8 (tvg_unsound (in_tx x) (in_vars x) off ws)));
      VL (map (fun m => VL (map ofB m)) (if getB (argn 4 v) then ag_take 8 (tvg_missing x off ws) else []))].

(* stage (b).  [x; tvg; tvg starts; pvg; pvg starts; off; expect_u?] ->
     [topo (both); #tvg words; #pvg words; extra pvg words; untranslated tvg words; words with an illegitimate U;
      words lacking an expected U] *)
Definition api_ag_translate (v : val) : val :=
  let x := cv_input (argn 0 v) in
  let tg := ag_graph (argn 1 v) in
  let pg := ag_graph (argn 3 v) in
  let off := getZ (argn 5 v) in
  let n := length (in_vars x) in
  let tws := ag_lang_of tg (ag_nats (argn 2 v)) in
  let pws := ag_lang_of pg (ag_nats (argn 4 v)) in
  VL [ofB (topo tg && topo pg); VZ (Z.of_nat (length tws)); VZ (Z.of_nat (length pws));
      VL (map ag_word (ag_take 8 (tr_extra n tws pws)));
      VL (map ag_word (ag_take 8 (tr_missing n tws pws)));
      VL (map ag_word (ag_take 8 (filter (fun w => negb (u_legit x off w)) pws)));
      VL (map ag_word (if getB (argn 6 v) then ag_take 8 (filter (fun w => negb (u_expected x off w)) pws) else []))].

Fixpoint ag_count (z : Z) (l : list Z) : Z :=
  match l with [] => 0 | y :: t => (if y =? z then 1 else 0) + ag_count z t end.

(* stage (c).  [rule; exc; pvg before; starts; pvg after; starts] ->
     [topo (both); #paths before; #paths after; strings only before; strings only after;
      [number of paths with verdict 0..4]; examples [[verdict; labels]; ...] of the verdicts 1..4] *)
Definition api_ag_cleave (v : val) : val :=
  let r := cv_rule (argn 0 v) in
  let e := cv_exc (argn 1 v) in
  let g1 := ag_graph (argn 2 v) in
  let g2 := ag_graph (argn 4 v) in
  let s1 := strings (ag_lang_of g1 (ag_nats (argn 3 v))) in
  let ps2 := flat_map (paths g2) (ag_nats (argn 5 v)) in
  let s2 := map (fun p => fst (word g2 p)) ps2 in
  let vs := map (fun p => (cleave_verdict r e (labels g2 p), p)) ps2 in
  let ex z := ag_take 3 (filter (fun vp => fst vp =? z) vs) in
  VL [ofB (topo g1 && topo g2); VZ (Z.of_nat (length s1)); VZ (Z.of_nat (length s2));
      ofSS (ag_take 8 (only_in s1 s2)); ofSS (ag_take 8 (invented s1 s2));
      VL (map (fun z => VZ (ag_count z (map fst vs))) [0; 1; 2; 3; 4]);
      VL (map (fun vp => VL [VZ (fst vp); ofSS (labels g2 (snd vp))]) (ex 4 ++ ex 2 ++ ex 3 ++ ex 1))].

(* [rule; exc; labels] -> [verdict; node boundaries; expected boundaries]   (diagnosis) *)
Definition api_ag_bounds (v : val) : val :=
  let r := cv_rule (argn 0 v) in
  let e := cv_exc (argn 1 v) in
  let ls := getSS (argn 2 v) in
  let s := concat ls in
  VL [VZ (cleave_verdict r e ls); ag_ofnats (inner (length s) (bounds_from 0 ls)); ag_ofnats (exp_bounds r e s)].

(* [k; mw4; minlen; maxlen; nf; labels] -> joins of 1..k+1 consecutive labels (Model/AbsGraph.joins) and, for
   comparison, Digest.cleave_loop over the node boundaries (theorem joins_eq_cleave_loop) *)
Definition api_ag_joins (v : val) : val :=
  let lim := mkLimits (getZ (argn 0 v)) (getZ (argn 1 v)) (getZ (argn 2 v)) (getZ (argn 3 v)) in
  let nf := getB (argn 4 v) in
  let ls := getSS (argn 5 v) in
  VL [ofSS (joins Gen.Bio.protein_weights4 Gen.Bio.water4 lim nf true ls);
      ofSS (cleave_loop Gen.Bio.protein_weights4 Gen.Bio.water4 lim (concat ls) nf true (all_bounds ls))].

(* stage tvg-bubbles against the MODEL algorithm.  [x; g; starts; off] ->
     [side conditions (topo, bb_wf, bb_sorted); #real words; #model words; real words not in lang (add_bubbles tx vs);
      obliged model words the real graph does not spell; number of non-obliged model words it does not spell] *)
Definition api_ag_bubbles (v : val) : val :=
  let x := cv_input (argn 0 v) in
  let g := ag_graph (argn 1 v) in
  let off := Z.to_nat (getZ (argn 3 v)) in
  let rs := ag_lang_of g (ag_nats (argn 2 v)) in
  let mo := bb_model_only x off rs in
  VL [ofB (topo g && bb_wf (in_tx x) (in_vars x) && bb_sorted (in_vars x));
      VZ (Z.of_nat (length rs)); VZ (Z.of_nat (length (bb_model x off)));
      VL (map ag_word (ag_take 8 (bb_real_only x off rs)));
      VL (map ag_word (ag_take 8 (fst mo)));
      VZ (snd mo)].

(* ---- graphs on derived backbones (round 2) ---- *)
From MoPep Require Import Model.SpecFusion Model.SpecAS Model.SpecCirc Extract.Api_SpecFusion Extract.Api_SpecAS Extract.Api_SpecCirc.

Definition ag_ext_reply (g : graph) (real : list seq) (uns mis : list seq) (nspec : nat) : val :=
  VL [ofB (topo g); VZ (Z.of_nat (length real)); VZ (Z.of_nat nspec); ofSS (ag_take 6 uns); ofSS (ag_take 6 mis)].

(* fusion graph.  [xd; bp; mid; mvars; xa; bp'; g; starts; off] -> [topo; #real strings; #records of the backbone;
   real strings not spelled by the fused backbone with any compatible record set; obliged strings missing] *)
Definition api_ag_ext_fusion (v : val) : val :=
  let xd := cv_input (argn 0 v) in let bp := getZ (argn 1 v) in
  let mid := getS (argn 2 v) in let mv := cv_vars (argn 3 v) in
  let xa := cv_input (argn 4 v) in let bp' := getZ (argn 5 v) in
  let g := ag_graph (argn 6 v) in
  let off := Z.to_nat (getZ (argn 8 v)) in
  let real := dedup_seqs (strings (ag_lang_of g (ag_nats (argn 7 v)))) in
  let y := fuse_gen xd bp mid mv xa bp' in
  let ys := fuse_gen_strict xd bp mid mv xa bp' in
  let nothing := (in_coding xd && negb (in_coding ys)) || existsb (fun p => (p - 3 <? bp) && (bp <=? p + 6)) (in_sec xd) in
  let obl := if nothing then [] else ext_obliged off ys ([] :: filter (one_partner bp) (must_haps ys)) in
  ag_ext_reply g real (ext_unsound_fast off [y] real) (ext_missing obl real) (length (in_vars y)).

(* fusion graph with the breakpoints moved by (d1, d2): signature of C02-fusion-junction-indel.
   [xd; bp; xa; bp'; g; starts; off; strings] -> for each string: spelled by a fused backbone whose breakpoints
   are moved by at most one base each (exonic fuse, as in cvcheck) *)
Definition api_ag_ext_fusion_moved (v : val) : val :=
  let xd := cv_input (argn 0 v) in let bp := getZ (argn 1 v) in
  let xa := cv_input (argn 2 v) in let bp' := getZ (argn 3 v) in
  let off := Z.to_nat (getZ (argn 4 v)) in
  let alts := flat_map (fun d1 => flat_map (fun d2 => if (d1 =? 0) && (d2 =? 0) then [] else
                          ext_strings off (fuse xd (bp + d1) xa (bp' + d2))) [-1; 0; 1]) [-1; 0; 1] in
  VL (map (fun s => ofB (mem_seq (getS s) alts)) (getL (argn 5 v))).

(* main graph of a transcript carrying alternative-splicing records.  [x; asrecs; g; starts; off; linear_must] *)
Definition api_ag_ext_as (v : val) : val :=
  let x := cv_input (argn 0 v) in
  let rs := map cv_asrec (getL (argn 1 v)) in
  let g := ag_graph (argn 2 v) in
  let off := Z.to_nat (getZ (argn 4 v)) in
  let real := dedup_seqs (strings (ag_lang_of g (ag_nats (argn 3 v)))) in
  let ys := x :: map (as_apply_all x) (as_combos x rs) in
  let obl := (if getB (argn 5 v) then ext_obliged off x ([] :: must_haps x) else ext_obliged off x [[]]) ++
             flat_map (fun r => if as_must_ok x r
                                then let y := as_apply_gen false x r in ext_obliged off y ([] :: must_haps y)
                                else []) rs in
  ag_ext_reply g real (ext_unsound_fast off ys real) (ext_missing obl real) (length ys).

(* circRNA graph.  [c; g; starts; off; first] : off bases cut from the head of the four-copy backbone *)
Definition api_ag_ext_circ (v : val) : val :=
  let c := cv_circ (argn 0 v) in
  let g := ag_graph (argn 1 v) in
  let off := Z.to_nat (getZ (argn 3 v)) in
  let real := dedup_seqs (strings (ag_lang_of g (ag_nats (argn 2 v)))) in
  let y := circ_linear true c in
  let t := circ_turn (c_gene c) (c_frags c) in
  let obl := map (fun h => skipn off (circ_hap c h))
                 ([] :: filter circ_must_hap (haplotypes true (circ_vars false c))) in
  ag_ext_reply g real (ext_unsound_fast off [y] real) (ext_missing obl real) (length (in_vars y)).

(* translation stage without record semantics.  [tvg; starts; pvg; starts; n ids] -> [topo; #t; #p; extra; missing] *)
Definition api_ag_translate_plain (v : val) : val :=
  let tg := ag_graph (argn 0 v) in
  let pg := ag_graph (argn 2 v) in
  let n := Z.to_nat (getZ (argn 4 v)) in
  let tws := map (fun t => (translate_all (fst t), snd t)) (ag_lang_of tg (ag_nats (argn 1 v))) in
  let pws := ag_lang_of pg (ag_nats (argn 3 v)) in
  VL [ofB (topo tg && topo pg); VZ (Z.of_nat (length tws)); VZ (Z.of_nat (length pws));
      VL (map ag_word (ag_take 6 (tr_extra_pre n tws pws))); VL (map ag_word (ag_take 6 (tr_missing_pre n tws pws)))].
