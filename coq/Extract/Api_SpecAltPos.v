(* Oracle entry points for C03 with position-exact generated identifiers (glue). *)
From MoPep Require Import Model.Base Model.Rule Model.Digest Model.Spec Model.SpecAlt Model.SpecAltPos
                          Extract.Api_Spec.
Open Scope Z_scope.

(* [x; [[peptide; ids; sect_pos; w2f_pos]; ...]] -> [witness_ok_pos ...]
   ids      = indices of the named records in the record list of x
   sect_pos = transcript (reference) positions of the first base of the Sec codons named by SECT-n
   w2f_pos  = 0-based residue indices named by W2F-i, ascending *)
Definition api_cv_witness_pos (v : val) : val :=
  let x := cv_input (argn 0 v) in
  VL (map (fun q => ofB (witness_ok_pos x (getS (argn 0 q)) (cv_nats (argn 1 q))
                                        (map getZ (getL (argn 2 q))) (cv_nats (argn 3 q))))
          (getL (argn 1 v))).

(* [x; ids; sect_pos] -> the peptides before the W>F step (diagnosis) *)
Definition api_cv_pos_bases (v : val) : val :=
  let x := cv_input (argn 0 v) in
  ofSS (cv_dedup (pos_bases x (named x (cv_nats (argn 1 v))) (map getZ (getL (argn 2 v))))).
