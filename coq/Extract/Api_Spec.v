(* Oracle entry points for C01/C02/C03 (glue: decoding of protocol values; unverified, trusted). *)
From MoPep Require Import Model.Base Model.Rule Model.Digest Model.Spec Gen.Expasy Gen.Bio.
Open Scope Z_scope.

Definition cv_rule (v : val) : rule :=
  match lookup (getS v) site_rules with Some r => r | None => [] end.

Definition cv_exc (v : val) : option rule :=
  match getL v with
  | [] => None
  | _ => lookup (getS v) site_rules
  end.

Definition cv_limits (v : val) : limits :=
  mkLimits (getZ (argn 0 v)) (getZ (argn 1 v)) (getZ (argn 2 v)) (getZ (argn 3 v)).

Definition cv_var (v : val) : variant :=
  mkVar (getZ (argn 0 v)) (getZ (argn 1 v)) (getS (argn 2 v)) (getB (argn 3 v)).

(* x = [tx; coding; orf; start_nf; end_nf; secs; vars; rule; exc; [k;mw4;minlen;maxlen]; prots]
   vars  = [[s; e; alt; ok]; ...]  sorted by s
   prots = [[seq; cds_start_nf]; ...]   the proteome; the canonical pool is computed by the C10 model *)
Definition cv_input (v : val) : input :=
  let r := cv_rule (argn 7 v) in
  let e := cv_exc (argn 8 v) in
  let lim := cv_limits (argn 9 v) in
  let prots := map (fun p => (getS (argn 0 p), getB (argn 1 p))) (getL (argn 10 v)) in
  mkInput (getS (argn 0 v)) (getB (argn 1 v)) (getZ (argn 2 v)) (getB (argn 3 v)) (getB (argn 4 v))
          (getS (argn 5 v)) (map cv_var (getL (argn 6 v))) r e lim
          (pool protein_weights4 water4 lim r e prots).

Fixpoint cv_dedup (l : list seq) : list seq :=
  match l with
  | [] => []
  | p :: l' => if mem_seq p l' then cv_dedup l' else p :: cv_dedup l'
  end.

Definition cv_nats (v : val) : list nat := map (fun z => Z.to_nat (getZ z)) (getL v).

(* x -> must_set (deduplicated) *)
Definition api_cv_must (v : val) : val := ofSS (cv_dedup (must_set (cv_input v))).

(* x -> may_set (deduplicated) *)
Definition api_cv_may (v : val) : val := ofSS (cv_dedup (may_set (cv_input v))).

(* x -> may_set minus reference products minus pool (deduplicated): for the slack measurement *)
Definition api_cv_may_novel (v : val) : val :=
  let x := cv_input v in ofSS (cv_dedup (filter (novel x) (may_set x))).

(* [x; peptides] -> [realizable p ...] *)
Definition api_cv_realizable (v : val) : val :=
  let x := cv_input (argn 0 v) in
  let m := may_set x in
  VL (map (fun p => ofB (mem_seq (getS p) m)) (getL (argn 1 v))).

(* [x; peptides] -> [realizable_relaxed p ...]   (D14 signature) *)
Definition api_cv_realizable_relaxed (v : val) : val :=
  let x := cv_input (argn 0 v) in
  let hs := haplotypes false (in_vars x) in
  let m := flat_map (may_products_relaxed x) hs in
  VL (map (fun p => ofB (mem_seq (getS p) m)) (getL (argn 1 v))).

(* x -> must_core (deduplicated)   (D14 signature) *)
Definition api_cv_must_core (v : val) : val := ofSS (cv_dedup (must_core (cv_input v))).

(* [x; [[peptide; ids]; ...]] -> [witness under the relaxed exception semantics ...]  (D14 signature) *)
Definition api_cv_witness_relaxed (v : val) : val :=
  let x := cv_input (argn 0 v) in
  VL (map (fun q =>
        let ids := cv_nats (argn 1 q) in
        let h := named x ids in
        ofB (ids_ok x ids && nonempty h && pairwise false h &&
             mem_seq (getS (argn 0 q)) (may_products_relaxed x h)))
      (getL (argn 1 v))).

(* [x; [[peptide; ids]; ...]] -> [witness_ok ...] *)
Definition api_cv_witness (v : val) : val :=
  let x := cv_input (argn 0 v) in
  VL (map (fun q => ofB (witness_ok x (getS (argn 0 q)) (cv_nats (argn 1 q)))) (getL (argn 1 v))).

(* [entries] -> entries_unique *)
Definition api_cv_entries_unique (v : val) : val := ofB (entries_unique (getSS v)).

(* x -> reference products (deduplicated), for diagnosis *)
Definition api_cv_ref (v : val) : val := ofSS (cv_dedup (ref_products (cv_input v))).

Definition cv_wit (w : witness) : val :=
  VL [VL (map ofB (w_mask w)); VZ (w_start w); ofS (w_aas w); ofB (w_stopped w);
      VZ (Z.of_nat (w_a w)); VZ (Z.of_nat (w_b w)); VZ (w_form w)].

(* [x; p] -> derivations of p under the obliged semantics: [[mask; start; aas; stopped; a; b; form] ...] *)
Definition api_cv_must_witnesses (v : val) : val :=
  VL (map cv_wit (must_witnesses (cv_input (argn 0 v)) (getS (argn 1 v)))).

Definition api_cv_may_witnesses (v : val) : val :=
  VL (map cv_wit (may_witnesses (cv_input (argn 0 v)) (getS (argn 1 v)))).

(* [x; mask; start] -> residues of the translation of the masked haplotype from start (Sec as in MUST) *)
Definition api_cv_translate_at (v : val) : val :=
  let x := cv_input (argn 0 v) in
  let h := select (map getB (getL (argn 1 v))) (in_vars x) in
  ofS (fst (translate_from (apply_hap (in_tx x) h) (getZ (argn 2 v)) (map (shift h) (in_sec x)))).

Fixpoint cv_prefix (p s : seq) : bool :=
  match p, s with
  | [], _ => true
  | a :: p', b :: s' => (a =? b) && cv_prefix p' s'
  | _, [] => false
  end.
Fixpoint cv_infix (p s : seq) : bool :=
  cv_prefix p s || match s with [] => false | _ :: s' => cv_infix p s' end.

(* [x; p] -> p is a contiguous part of the translation of some non-empty permitted haplotype
   (coarse signature of D14b: cleavage positions ignored) *)
Definition api_cv_substring (v : val) : val :=
  let x := cv_input (argn 0 v) in
  let p := getS (argn 1 v) in
  ofB (existsb (fun h =>
         let hs := apply_hap (in_tx x) h in
         existsb (fun st => existsb (fun secs => cv_infix p (fst (translate_from hs st secs))) (may_secs x h))
                 (may_starts x h hs))
       (haplotypes false (in_vars x))).

(* [x; peptides] -> realizable when look-behind-dependent and exception-suppressed sites are optional (D14b) *)
Definition api_cv_realizable_relaxed2 (v : val) : val :=
  let x := cv_input (argn 0 v) in
  let m := flat_map (may_products_relaxed2 x) (haplotypes false (in_vars x)) in
  VL (map (fun p => ofB (mem_seq (getS p) m)) (getL (argn 1 v))).

(* [x; aas] -> firm sites of a translation (D14b signature) *)
Definition api_cv_firm_sites (v : val) : val :=
  VL (map (fun n => VZ (Z.of_nat n)) (firm_sites (cv_input (argn 0 v)) (getS (argn 1 v)))).

(* [x; [[peptide; ids]; ...]] -> witness when look-behind-dependent sites (also those seen only with the
   residues upstream of the start) are optional  (D14b signature for headers) *)
Definition api_cv_witness_relaxed2 (v : val) : val :=
  let x := cv_input (argn 0 v) in
  VL (map (fun q =>
        let ids := cv_nats (argn 1 q) in
        let h := named x ids in
        ofB (ids_ok x ids && nonempty h && pairwise false h &&
             mem_seq (getS (argn 0 q)) (may_products_relaxed2 x h)))
      (getL (argn 1 v))).

(* [x; mask; start] -> soft sites of the translation of the masked haplotype from start: rule sites (also
   those visible only with the residues upstream of start) that are not firm  (D14b signature) *)
Definition api_cv_soft_sites (v : val) : val :=
  let x := cv_input (argn 0 v) in
  let h := select (map getB (getL (argn 1 v))) (in_vars x) in
  let st := getZ (argn 2 v) in
  let hs := apply_hap (in_tx x) h in
  let aas := fst (translate_from hs st (map (shift h) (in_sec x))) in
  let firm := firm_sites x aas in
  VL (map (fun n => VZ (Z.of_nat n))
          (filter (fun i => negb (mem_nat i firm)) (raw_sites_ctx (in_rule x) (upstream_rl hs st) aas [] 0))).

(* [x; peptides] -> realizable when a Sec codon within one codon of a record may be read as stop *)
Definition api_cv_realizable_secwide (v : val) : val :=
  let x := cv_input (argn 0 v) in
  let m := flat_map (may_products_secwide x) (haplotypes false (in_vars x)) in
  VL (map (fun p => ofB (mem_seq (getS p) m)) (getL (argn 1 v))).

(* [x; peptides] -> [[peptide; witness] ...]  obliged derivations of all given peptides in one pass *)
Definition api_cv_must_witnesses_of (v : val) : val :=
  VL (map (fun qw => VL [ofS (fst qw); cv_wit (snd qw)])
          (must_witnesses_of (cv_input (argn 0 v)) (getSS (argn 1 v)))).
