(* Oracle entry points for C20 (glue: decoding of protocol values; unverified, trusted). *)
From MoPep Require Import Model.Base Model.Rule Model.Digest Model.Decoy Gen.Expasy Gen.DecoyCli.
Open Scope Z_scope.

Definition c20_nats (l : list nat) : val := VL (map (fun n => VZ (Z.of_nat n)) l).
Definition c20_get_nats (v : val) : list nat := map Z.to_nat (getS v).

(* enzyme: [] = None, otherwise a name of the rule table (unknown name -> empty rule, which the
   harness never sends: EXPASY_RULES[rule] raises KeyError in the implementation) *)
Definition c20_enzyme (v : val) : option rule :=
  match getL v with
  | [] => None
  | _ => match lookup (getS v) site_rules with Some r => Some r | None => Some [] end
  end.

(* exception in force.  exc_mode 1 (repaired spelling): 'trypsin_exception' iff the enzyme is
   'trypsin'.  exc_mode 0 (unchanged code): the misspelt name is not in the table and, compiled
   as a literal regex, matches no upper-case sequence: None. *)
Definition c20_trypsin : list Z := [116; 114; 121; 112; 115; 105; 110].
Definition c20_exc (enzyme : val) (exc_mode : Z) : option rule :=
  if (exc_mode =? 1) && eq_seq (getS enzyme) c20_trypsin
  then lookup (c20_trypsin ++ [95; 101; 120; 99; 101; 112; 116; 105; 111; 110]) site_rules
  else if (exc_mode =? 2) && eq_seq (getS enzyme) c20_trypsin
  then lookup trypsin_exception_literal site_rules      (* the literal found in the source *)
  else None.

(* switches as translated from the current source: [site_index_shift; 2; sort_key_variant] *)
Definition api_c20_switches (_ : val) : val := VL [VZ site_index_shift; VZ 2; VZ sort_key_variant].

(* [method; enzyme; [shift; exc_mode; keyhdr]; nterm; cterm; pattern; max_attempts;
    decoy_string; prefix; order] *)
Definition c20_cfg (v : val) : config :=
  let var := argn 2 v in
  mkCfg (getZ (argn 0 v)) (c20_enzyme (argn 1 v))
        (c20_exc (argn 1 v) (getZ (argn 1 var))) (Z.to_nat (getZ (argn 0 var)))
        (getB (argn 3 v)) (getB (argn 4 v)) (getSS (argn 5 v)) (getZ (argn 6 v))
        (getS (argn 7 v)) (getB (argn 8 v)) (getZ (argn 9 v)) (getB (argn 2 var)).

Definition c20_rec (v : val) : rec := (getS (argn 0 v), getS (argn 1 v)).
Definition c20_of_rec (r : rec) : val := VL [ofS (fst r); ofS (snd r)].

(* [cfg; seq] -> fixed indices *)
Definition api_c20_fixed (v : val) : val :=
  c20_nats (find_fixed_indices (c20_cfg (argn 0 v)) (getS (argn 1 v))).

(* [seq; fixed] -> reversed sequence *)
Definition api_c20_reverse (v : val) : val :=
  ofS (reverse_sequence (getS (argn 0 v)) (c20_get_nats (argn 1 v))).

(* [seq; fixed; shuffled] -> shuffled sequence *)
Definition api_c20_shuffle (v : val) : val :=
  ofS (shuffle_sequence (getS (argn 0 v)) (c20_get_nats (argn 1 v)) (c20_get_nats (argn 2 v))).

(* [cfg; targets; stream; mode] -> [status; records; calls; overlap; queries]
   status 0 ok | 1 ValueError | 2 fuel ; mode 0: stream of returned lists, 1: stream of ranks *)
Definition api_c20_run (v : val) : val :=
  let cfg := c20_cfg (argn 0 v) in
  let targets := map c20_rec (getL (argn 1 v)) in
  let stream := map c20_get_nats (getL (argn 2 v)) in
  let sample := if getZ (argn 3 v) =? 1 then sample_of_ranks stream else sample_of_stream stream in
  match run sample cfg targets with
  | Ok o => VL [VZ 0; VL (map c20_of_rec (o_records o)); VZ (Z.of_nat (o_calls o));
                VZ (o_overlap o); VL (map c20_nats (o_queries o))]
  | ErrValue => VL [VZ 1]
  | ErrFuel => VL [VZ 2]
  end.
