(* Oracle entry points for the record order / identity model of C06 (glue; unverified, trusted). *)
From Coq Require Import ZArith List Bool.
From MoPep Require Import Model.Base Model.VarRecord.
Import ListNotations.
Open Scope Z_scope.

(* record = [start; end; strand level 0..3 (None, 0, -1, 1); ref; alt; type; [attr0 .. attr10] each [] | [value]; id] *)
Definition dec_strand (z : Z) : strand :=
  if z =? 1 then SZero else if z =? 2 then SMinus else if z =? 3 then SPlus else SNone.
Definition dec_opt (v : val) : option seq :=
  match getL v with [] => None | x :: _ => Some (getS x) end.
Definition dec_vrec (v : val) : vrec :=
  mkV (mkLoc (getZ (argn 0 v)) (getZ (argn 1 v)) (dec_strand (getZ (argn 2 v))))
      (getS (argn 3 v)) (getS (argn 4 v)) (getS (argn 5 v)) (map dec_opt (getL (argn 6 v))) (getS (argn 7 v)).

(* [a; b] -> [eq; gt; ge; lt; le; hash keys equal; pair_ok; gt_conflict; incomparable; loc ==; loc >] *)
Definition api_c06_vr_cmp (v : val) : val :=
  let a := dec_vrec (argn 0 v) in
  let b := dec_vrec (argn 1 v) in
  VL [ofB (vr_eq a b); ofB (vr_gt a b); ofB (vr_ge a b); ofB (vr_lt a b); ofB (vr_le a b);
      ofB (hkey_eqb (hash_key a) (hash_key b)); ofB (pair_ok a b); ofB (gt_conflict a b); ofB (incomparable a b);
      ofB (loc_eqb (v_loc a) (v_loc b)); ofB (loc_gtb (v_loc a) (v_loc b))].

(* [records] -> [ids in sorted order; conflict_free; ids kept by set() in delivery order] *)
Definition api_c06_vr_sorted (v : val) : val :=
  let l := map dec_vrec (getL (argn 0 v)) in
  VL [ofSS (map v_id (sorted l)); ofB (conflict_free l); ofSS (map v_id (dedup l))].
