(* Oracle entry points for C07 (glue; unverified, trusted). *)
From MoPep Require Import Model.Base Model.Wrapper Gen.WrapperShape.
Open Scope Z_scope.

Definition c07_unit (v : val) : unit_ :=
  {| u_id := getZ (argn 0 v); u_fail := getB (argn 1 v);
     u_raw := map (fun p => (getS (argn 0 p), getS (argn 1 p))) (getL (argn 2 v)) |}.

(* [id; invalid; empty; [main] or []; [fusion...]; [circ...]; accepter invalid] *)
Definition c07_tx (v : val) : txin :=
  {| t_id := getZ (argn 0 v); t_invalid := getB (argn 1 v); t_empty := getB (argn 2 v);
     t_acc_invalid := getB (argn 6 v);
     t_main := match getL (argn 3 v) with u :: _ => Some (c07_unit u) | [] => None end;
     t_fusions := map c07_unit (getL (argn 4 v));
     t_circs := map c07_unit (getL (argn 5 v)) |}.

Definition c07_shape (k : Z) : shape :=
  if k =? 1 then shape_fixed else if k =? 2 then shape_orig else source_shape.

Definition c07_exn (e : option exn) : Z :=
  match e with None => 0 | Some EUnit => 1 | Some EUnbound => 2 | Some EInvalid => 3 end.

Definition c07_tally (t : tally) : val :=
  ofS [n_total t; n_processed t; n_invalid t; f_variant t; f_fusion t; f_circ t; n_total_pep t; n_valid t].

(* [which shape (0 source, 1 repaired, 2 as in the unchanged tree); skip_failed; [tx...]]
   -> [exception code; [] | [[[seq; labels]...]]; [] | [tally]]      (valid = everything) *)
Definition api_c07_run (v : val) : val :=
  let r := run (c07_shape (getZ (argn 0 v))) (fun _ => true) (getB (argn 1 v)) (map c07_tx (getL (argn 2 v))) in
  VL [VZ (c07_exn (r_exc r));
      ofOpt (option_map (fun f => VL (map (fun p => VL [ofS (fst p); ofS (snd p)]) f)) (r_fasta r));
      ofOpt (option_map c07_tally (r_tally r))].

(* one transcript through the wrapper: [which shape; skip; tx]
   -> [exception code; flags; sequences of peptide_anno; dgraphs[2] as [key; owner] pairs] *)
Definition api_c07_wrapper (v : val) : val :=
  match wrapper (c07_shape (getZ (argn 0 v))) (getB (argn 1 v)) (c07_tx (argn 2 v)) with
  | Raise e => VL [VZ (c07_exn (Some e)); VL []; VL []; VL []]
  | Ok w => match w_flags w with
            | (a, b, c) => VL [VZ 0; VL [ofB a; ofB b; ofB c]; ofSS (keys (w_anno w));
                               VL (map (fun p => ofS [fst p; snd p]) (w_graphs w))]
            end
  end.

(* the shape read from the current source: [known?; equals repaired?; equals unchanged-tree?; fields...] *)
Definition api_c07_shape (_ : val) : val :=
  let s := source_shape in
  VL [ofB (shape_known s); ofB (shape_eqb s shape_fixed); ofB (shape_eqb s shape_orig);
      ofS [sh_main_flag s; sh_fusion_flag s; sh_circ_flag s];
      VL [ofB (sh_main_reraise s); ofB (sh_fusion_reraise s); ofB (sh_circ_reraise s); ofB (sh_circ_cont s);
          ofB (sh_fasta_after_loop s); ofB (sh_invalid_guarded s); ofB (sh_acc_guarded s)];
      ofS (sh_tally_keys s)].

(* ------------------------------------------------------------------ parser stream *)
From MoPep Require Import Model.ParserLoop Gen.ParserShape.

(* row: [0; reason] | [1; [record ids]] | [2; [classes of the mro]; unknown key] *)
Definition c07_prow (v : val) : prow :=
  let k := getZ (argn 0 v) in
  if k =? 0 then PSkip (getZ (argn 1 v))
  else if k =? 1 then POk (getS (argn 1 v))
  else PExc (getS (argn 1 v)) (getB (argn 2 v)).

(* which: 0 the shape read from the source, 1 the repaired / documented shape;  tool: 0 star 1 fc 2 arriba 3 vep *)
Definition c07_pshape (which tool : Z) : pshape :=
  if which =? 1 then (if tool =? 3 then shape_vep else shape_fusion)
  else if tool =? 0 then source_pshape_star else if tool =? 1 then source_pshape_fc
  else if tool =? 2 then source_pshape_arriba else source_pshape_vep.

(* [which; tool; skip_failed; [row...]] -> [exception (0 none, 1 conversion, 2 ranking the keys);
   [] | [[record ids]] (GVF); [] | [[read; processed; [skip reasons in order]]] (summary)] *)
Definition api_c07_parser_run (v : val) : val :=
  let o := prun (c07_pshape (getZ (argn 0 v)) (getZ (argn 1 v))) (getB (argn 2 v)) (map c07_prow (getL (argn 3 v))) in
  VL [VZ (match o_exc o with None => 0 | Some PEConv => 1 | Some PERank => 2 end);
      ofOpt (option_map ofS (o_gvf o));
      ofOpt (option_map (fun t => match t with (a, b, c) => VL [VZ a; VZ b; ofS c] end) (o_tally o))].

(* per tool: [source shape is the repaired/documented one; source shape is a modelled one] *)
Definition api_c07_parser_shapes (_ : val) : val :=
  VL (map (fun t => let s := c07_pshape 0 t in
                    VL [ofB (pshape_eqb s (c07_pshape 1 t));
                        ofB (pshape_eqb s (c07_pshape 1 t) ||
                             (if t =? 3 then pshape_eqb s shape_vep_orig else pshape_eqb s shape_fusion_orig))])
          [0; 1; 2; 3]).
