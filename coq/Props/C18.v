(* C18 - database bookkeeping conserves peptides (split, merge, encode, summarize).
   Model: Model/Split.v (+ Model/Header.v for the header grammar).  Every statement is for all pools,
   orders, option sets; external behaviour (uuid4) enters encode_roundtrip as Section hypotheses. *)
From Coq Require Import Permutation.
From MoPep Require Import Model.Base Gen.HeaderCfg Model.Header Model.HeaderRef Model.Filter Model.Split
  Proofs.FilterProofs Proofs.HeaderProofs Proofs.SplitOrder Proofs.SplitProofs Proofs.MergeProofs
  Proofs.EncodeProofs Proofs.SummaryProofs Proofs.WildProofs.
Open Scope Z_scope.

(* ---- obligations tying the regenerated tables / code shapes to the hand-written reference ---- *)
Theorem header_tables_are_spec_c18 :
  cfg_ctbv_prefixes = ref_ctbv_prefixes /\ cfg_alt_translation_prefixes = ref_alt_translation_prefixes /\
  cfg_alt_splice_types = ref_splice_types /\ cfg_splice_test = 2 /\
  cfg_source_novel_orf = ref_source_novel_orf /\ cfg_source_codon_reassign = ref_source_codon_reassign /\
  cfg_source_sect = ref_source_sect /\ cfg_sect_type = ref_source_sect /\
  cfg_codon_reassign_types = [[87;50;70]] /\ cfg_entry_delim = 32 /\ cfg_key_sep = 45 /\
  cfg_circ_orf_first = false /\ cfg_fusion_orf_first = false.
Proof. exact header_tables_are_spec_l. Qed.
Print Assumptions header_tables_are_spec_c18.

Theorem splitter_cfg_recognised : cfg_recognised = true.
Proof. vm_compute. reflexivity. Qed.
Print Assumptions splitter_cfg_recognised.

(* the three code shapes of the splitter / label map are the specified ones (since /repo 9dea6da, 238625f):
   __init__ keeps whole source names, the wildcard expansion reaches "all other sources", add_record keeps
   the first source.  A source change of any of them breaks this obligation. *)
Theorem splitter_shapes_are_spec :
  cfg_init_sources_by_char = false /\ cfg_wild_upper_exclusive = false /\ cfg_summary_last_wins = false.
Proof. repeat split; reflexivity. Qed.
Print Assumptions splitter_shapes_are_spec.

(* the code's wildcard-map test IS the documented meaning of "A-+" / "A-*" (--order-source help text),
   for every key and every source set drawn from the known sources *)
Theorem wild_matches_spec : forall all k S,
  subset S all = true -> (forall x, In x S -> is_wild x = false) ->
  key_matches all k S = spec_key_matches k S.
Proof. exact (wild_matches_spec_l (proj1 (proj2 splitter_shapes_are_spec))). Qed.
Print Assumptions wild_matches_spec.

(* ---- split ---- *)
(* split_partition: database keys pairwise different; flattened, the databases are a permutation of an
   assignment list with exactly one (key, peptide) per peptide of the (de-duplicated) input pool, the
   sequence unchanged and the header entries (labels) preserved as a multiset. *)
Theorem split_partition : forall c pool dbs,
  split_pool c pool = Ok dbs ->
  keys_distinct dbs /\
  exists assign,
    Permutation (flat_dbs dbs) assign /\
    Forall2 (fun p kx => fst (snd kx) = fst p /\
                         Permutation (map si_label (snd (snd kx))) (map si_label (snd p)))
            (dedup pool) assign.
Proof. exact split_partition_l. Qed.
Print Assumptions split_partition.

(* split_choice: the database of a peptide is db_key (order names / max groups / additional split /
   Remaining) of the source set of an entry h of the peptide (after group and wildcard mapping) that is of
   HIGHEST PRIORITY: for no entry e does the code's own comparison say sources(h) > sources(e).  The
   comparison is length-then-lexicographic on levels (src_gt); src_le is reflexive and transitive
   (source_order_preorder), so "highest priority" is well defined although VariantPeptideInfo.__lt__ itself
   is not a strict order (info_lt_not_asymmetric_refuted). *)
Theorem split_choice : forall c pool a,
  split_assign c pool = Ok a ->
  Forall2 (fun p kx =>
     exists h t es', snd (snd kx) = h :: t /\ fst kx = db_key c (si_sources h) /\
                     mapM (map_wild c) (snd p) = Ok es' /\ In h es' /\
                     forall e, In e es' -> src_gt (c_levels c) (si_sources h) (si_sources e) = Ok false)
          (dedup pool) a.
Proof. exact split_choice_l. Qed.
Print Assumptions split_choice.

Theorem source_order_preorder : forall lv,
  (forall A, src_le lv A A) /\
  (forall A B C, src_le lv A B -> src_le lv B C -> src_le lv A C) /\
  (forall A B, src_gt lv A B = Ok true -> src_le lv B A) /\
  (forall A A' B, set_eq A A' = true -> src_gt lv A B = src_gt lv A' B).
Proof.
  intro lv. split; [apply src_le_refl|]. split; [apply src_le_trans|]. split; [apply src_gt_true_le|apply src_gt_cong_l].
Qed.
Print Assumptions source_order_preorder.

(* ---- merge ---- *)
(* merge_union: the merged pool has pairwise distinct sequences; its sequences are the union of the input
   files' sequences; the entries listed under a sequence are the union of its entries over the input files
   (each file read as VariantPeptidePool.load reads it: first record of a sequence wins) *)
Theorem merge_union : forall (A : Type) (files : list (list (seq * list A))),
  let out := merge_files files in
  nodup_seq out /\
  (forall s, has_seq s out <-> exists g, In g files /\ has_seq s g) /\
  (forall s e, has_entry s e out <-> exists g, In g files /\ has_entry s e (dedup g)).
Proof. intros A. exact (@merge_union_l A). Qed.
Print Assumptions merge_union.

(* ---- encode ---- *)
(* encode_roundtrip: for pairwise distinct identifiers none of which carries the decoy string, and a
   non-empty decoy string: every header is restored exactly from the dictionary, and the encoded header is
   marked as decoy iff the original was *)
Theorem encode_roundtrip : forall (fresh : nat -> str) (decoy : str) (suffix : bool),
  (forall i j, fresh i = fresh j -> i = j) ->
  (forall n, is_decoy decoy suffix (fresh n) = false) ->
  decoy <> [] ->
  forall hs hs' d,
    encode fresh decoy suffix hs = (hs', d) ->
    Forall2 (fun h h' => decode decoy suffix d h' = Some h /\
                         is_decoy decoy suffix h' = is_decoy decoy suffix h) hs hs'.
Proof. exact encode_roundtrip_l. Qed.
Print Assumptions encode_roundtrip.

(* ---- summarize ---- *)
Theorem summary_totals : forall lv pool t,
  summarize lv pool = Ok t -> total_of t = Z.of_nat (length (dedup pool)).
Proof. exact summary_totals_l. Qed.
Print Assumptions summary_totals.

(* summary_matches_split, with its exact precondition: no wildcard key in the order, different source sets
   have different ranks (true when the levels are pairwise distinct: distinct_levels_rank_injective), no
   peptide sent to Remaining / an additional database, same label map for both commands (the model uses one
   env; on the code this is splitter_shapes_are_spec: add_record keeps the first source as add_variant does).
   Then per peptide the database key is the name of the summary row it is counted in, n_total of a source
   set is the number of peptides with that key, and the size of a database is the number of peptides
   assigned its key. *)
Theorem summary_matches_split : forall c pool a t,
  no_wild_keys (c_levels c) -> rank_injective (c_levels c) ->
  split_assign c pool = Ok a ->
  summarize (c_levels c) pool = Ok t ->
  (forall kx h tl, In kx a -> snd (snd kx) = h :: tl -> set_len (si_sources h) <= c_max_groups c) ->
  exists ks,
    mapM (summary_key (c_levels c)) (dedup pool) = Ok ks /\
    map fst a = map (set_str (c_levels c)) ks /\
    (forall S, count_of S t = Z.of_nat (length (filter (fun T => set_eq T S) ks))) /\
    (forall name, length (filter (fun kx => eq_seq (fst kx) name) (flat_dbs (group_by_key a))) =
                  length (filter (fun k => eq_seq k name) (map fst a))).
Proof. exact summary_matches_split_l. Qed.
Print Assumptions summary_matches_split.

Theorem distinct_levels_give_injective_ranks : forall lv, NoDup (map snd lv) -> rank_injective lv.
Proof. exact distinct_levels_rank_injective. Qed.
Print Assumptions distinct_levels_give_injective_ranks.

(* REPORTED (harmless for the database choice): VariantPeptideInfo.__lt__ is not asymmetric -- two entries
   with the same source set that differ in gene / variant index are each "less than" the other, so
   list.sort() leaves their relative order input-order dependent. *)
Theorem info_lt_not_asymmetric_refuted :
  exists lv a b, info_lt lv a b = Ok true /\ info_lt lv b a = Ok true.
Proof. exact info_lt_not_asymmetric_l. Qed.
Print Assumptions info_lt_not_asymmetric_refuted.

(* the hypotheses are satisfiable by non-trivial states *)
Definition ex_cfg : scfg := mkCfg [(KStr [65], 0); (KStr [66], 1)] [[65]; [66]] 1 [].
Definition ex_pool18 : list spep :=
  [ ([1], [mkInfo [10] [[71]] [[71]] (Some 1) [[66]]; mkInfo [11] [[71]] [[71]] (Some 2) [[65]]]);
    ([2], [mkInfo [12] [[71]] [[71]] (Some 1) [[66]]]) ].
Example split_example : exists dbs, split_pool ex_cfg ex_pool18 = Ok dbs /\ length dbs = 2%nat.
Proof. eexists. split; vm_compute; reflexivity. Qed.
Example summary_example :
  exists a t, split_assign ex_cfg ex_pool18 = Ok a /\ summarize (c_levels ex_cfg) ex_pool18 = Ok t /\
              no_wild_keys (c_levels ex_cfg) /\ NoDup (map snd (c_levels ex_cfg)) /\ total_of t = 2.
Proof.
  eexists. eexists. split; [vm_compute; reflexivity|]. split; [vm_compute; reflexivity|]. split.
  - intros kv [H|[H|[]]]; subst; reflexivity.
  - split; [|reflexivity]. cbn. constructor; [intros [H|[]]; discriminate|constructor; [intros []|constructor]].
Qed.
Example encode_example :
  let fresh := fun n => [120; Z.of_nat n + 48] in
  exists hs' d, encode fresh [68;95] false [[68;95;65]; [65]; [66]] = (hs', d) /\ length d = 2%nat.
Proof. eexists. eexists. split; vm_compute; reflexivity. Qed.

(* ---- code-level tie (docs/py2coq.md): the per-peptide database decision of PeptidePoolSplitter.split (`len(sources)
        <= max_groups` -> the source set's name; else the FIRST --additional-split set contained in the sources -> its
        'additional' database; else 'Remaining'), translated from /repo's current source by
        harness/translate/py2coq.py into coq/Gen/Py_PeptidePoolSplitter.v on every run, is Split.db_key for every
        configuration and source set. ---- *)
From MoPep Require Gen.Py_PeptidePoolSplitter.
From MoPep Require Import Proofs.Py2CoqSplitProofs.

Theorem code_db_key_translated : Py_PeptidePoolSplitter.py_db_key_untranslated = false.
Proof. vm_compute. reflexivity. Qed.
Print Assumptions code_db_key_translated.

Theorem code_db_key_is_model : forall c S, Py_PeptidePoolSplitter.py_db_key c S = db_key c S.
Proof. exact code_db_key_is_model_l. Qed.
Print Assumptions code_db_key_is_model.

(* ---- the order on source sets (VariantSourceSet.__gt__ and friends: it decides which header entry comes first and
        therefore the database of a peptide) ---- *)
From MoPep Require Gen.Py_VariantSourceSet.
From MoPep Require Import Model.SrcOrder Proofs.Py2CoqSrcOrderProofs.

Theorem code_source_order_translated :
  Py_VariantSourceSet.py_src_gt_untranslated = false /\ Py_VariantSourceSet.py_src_ge_untranslated = false /\
  Py_VariantSourceSet.py_src_lt_untranslated = false /\ Py_VariantSourceSet.py_src_le_untranslated = false.
Proof. vm_compute. repeat split. Qed.
Print Assumptions code_source_order_translated.

(* body ties (docs/py2coq.md): the four comparison methods as translated from the source on every run *)
Theorem code_src_gt_is_model : forall lv A B, Py_VariantSourceSet.py_src_gt lv A B = src_gt lv A B.
Proof. exact code_src_gt_is_model_l. Qed.
Print Assumptions code_src_gt_is_model.

Theorem code_src_ge_is_model : forall lv A B,
  Py_VariantSourceSet.py_src_ge lv A B = if set_eq A B then Ok true else src_gt lv A B.
Proof. exact code_src_ge_is_model_l. Qed.
Print Assumptions code_src_ge_is_model.

Theorem code_src_lt_is_model : forall lv A B,
  Py_VariantSourceSet.py_src_lt lv A B = if set_eq A B then Ok false else bind (src_gt lv A B) (fun g => Ok (negb g)).
Proof. exact code_src_lt_is_model_l. Qed.
Print Assumptions code_src_lt_is_model.

Theorem code_src_le_is_model : forall lv A B,
  Py_VariantSourceSet.py_src_le lv A B = bind (src_gt lv A B) (fun g => Ok (negb g)).
Proof. exact code_src_le_is_model_l. Qed.
Print Assumptions code_src_le_is_model.

(* the comparison of sorted level lists (length first, then element-wise) is a STRICT TOTAL ORDER *)
Theorem source_order_strict_total :
  (forall a, ints_gt a a = false) /\
  (forall a b, ints_gt a b = true -> ints_gt b a = false) /\
  (forall a b c, ints_gt a b = true -> ints_gt b c = true -> ints_gt a c = true) /\
  (forall a b, a = b \/ ints_gt a b = true \/ ints_gt b a = true).
Proof. repeat split; [apply ints_gt_irrefl | apply ints_gt_asym | apply ints_gt_trans | apply ints_gt_total]. Qed.
Print Assumptions source_order_strict_total.

(* ... whereas `any(i > j ...)` (seeded change C18-7) is not even antisymmetric *)
Theorem any_gt_order_refuted : exists a b, any_gt a b = true /\ any_gt b a = true.
Proof. exact any_gt_not_antisymmetric. Qed.
Print Assumptions any_gt_order_refuted.

(* hence sorting level lists by the order is a function of the multiset: the order in which the entries of a header
   arrive (file layout, hash order) cannot change the sorted sequence *)
Theorem source_sort_layout_free : forall l l', Permutation l l' -> ksort l = ksort l'.
Proof. exact ksort_layout_free_l. Qed.
Print Assumptions source_sort_layout_free.
