(* C18 - database bookkeeping conserves peptides (split, merge, encode, summarize).
   Model: Model/Split.v (+ Model/Header.v for the header grammar).  PARTIAL: see the comments at the end
   for the statements that are only correspondence-tested. *)
From Coq Require Import Permutation.
From MoPep Require Import Model.Base Gen.HeaderCfg Model.Header Model.HeaderRef Model.Filter Model.Split
  Proofs.FilterProofs Proofs.HeaderProofs Proofs.SplitProofs.
Open Scope Z_scope.

(* the regenerated header tables / code shapes coincide with the hand-written reference *)
Theorem header_tables_are_spec_c18 :
  cfg_ctbv_prefixes = ref_ctbv_prefixes /\ cfg_alt_translation_prefixes = ref_alt_translation_prefixes /\
  cfg_alt_splice_types = ref_splice_types /\ cfg_splice_test = 2 /\
  cfg_source_novel_orf = ref_source_novel_orf /\ cfg_source_codon_reassign = ref_source_codon_reassign /\
  cfg_source_sect = ref_source_sect /\ cfg_sect_type = ref_source_sect /\
  cfg_codon_reassign_types = [[87;50;70]] /\ cfg_entry_delim = 32 /\ cfg_key_sep = 45 /\
  cfg_circ_orf_first = false /\ cfg_fusion_orf_first = false.
Proof. exact header_tables_are_spec_l. Qed.
Print Assumptions header_tables_are_spec_c18.

Theorem splitter_cfg_recognised : cfg_recognised = true.
Proof. vm_compute. reflexivity. Qed.
Print Assumptions splitter_cfg_recognised.

(* split_partition: the databases have pairwise different keys; flattened, they are a permutation of an
   assignment list that has exactly one (key, peptide) per peptide of the (de-duplicated) input pool, with
   the sequence unchanged and the header entries (labels) preserved as a multiset.  Hence every peptide
   lands in exactly one database. *)
Theorem split_partition : forall c pool dbs,
  split_pool c pool = Ok dbs ->
  keys_distinct dbs /\
  exists assign,
    Permutation (flat_dbs dbs) assign /\
    Forall2 (fun p kx => fst (snd kx) = fst p /\
                         Permutation (map si_label (snd (snd kx))) (map si_label (snd p)))
            (dedup pool) assign.
Proof. exact split_partition_l. Qed.
Print Assumptions split_partition.

(* split_choice, PARTIAL.  Proved: the database of a peptide is db_key (order / max groups / additional
   split) of the source set of the FIRST entry after sorting, and that entry is one of the peptide's
   (wildcard-mapped) entries.
   NOT proved here: that the first entry is minimal in the source order
       forall e, In e sorted -> src_gt lv (si_sources h) (si_sources e) = Ok false
   (needs: ints_gt is a strict total order on to_int images, and sorting with the non-strict __lt__ below
   still yields a list ordered by source set).  The correspondence checks on every generated case that the
   implementation's header is ordered by the model's ranks and that the database is the one of the best
   source set computed independently from the generator's ground truth. *)
Theorem split_choice_partial : forall c pool a,
  split_assign c pool = Ok a ->
  Forall2 (fun p kx =>
     exists h t es', snd (snd kx) = h :: t /\ fst kx = db_key c (si_sources h) /\
                     mapM (map_wild c) (snd p) = Ok es' /\ In h es')
          (dedup pool) a.
Proof. exact split_choice_partial_l. Qed.
Print Assumptions split_choice_partial.

(* summary_totals: the n_total counts add up to the number of peptides *)
Theorem summary_totals : forall lv pool t,
  summarize lv pool = Ok t -> total_of t = Z.of_nat (length (dedup pool)).
Proof. exact summary_totals_l. Qed.
Print Assumptions summary_totals.

(* FINDING (reported, harmless for the database choice): VariantPeptideInfo.__lt__ is not asymmetric --
   two entries with the same source set that differ in gene / variant index are each "less than" the
   other, so list.sort() leaves their relative order input-order dependent. *)
Theorem info_lt_not_asymmetric_refuted :
  exists lv a b, info_lt lv a b = Ok true /\ info_lt lv b a = Ok true.
Proof. exact info_lt_not_asymmetric_l. Qed.
Print Assumptions info_lt_not_asymmetric_refuted.

(* FINDING C18-wildcard-expansion at the model level: while PeptidePoolSplitter.__init__ iterates plain
   source names character by character, a wildcard key does not match a source set it is documented to
   match (order "ab,c-+", GVF source c, entry sources {c, ab}). *)
Theorem wildcard_expansion_refuted : cfg_init_sources_by_char = true ->
  exists order gvf k S,
    In k order /\ spec_key_matches k S = true /\
    key_matches (snd (mk_order order [] gvf)) k S = false.
Proof. exact wildcard_expansion_refuted_l. Qed.
Print Assumptions wildcard_expansion_refuted.

(* NOT PROVED (correspondence only, every run):
     merge_union      : merge_files = union of sequences with the union of header entries
                        (model: pool_add / merge_files; checked against merge_fasta(args) and against the
                        union computed independently);
     encode_roundtrip : forall i, decode d (nth i (fst (encode hs))) = Some (nth i hs) for pairwise distinct
                        ids none of which starts/ends with the decoy string and decoy <> ""
                        (model: encode / decode with `fresh` a Section variable; checked on the real
                        encode_fasta(args) output with the ids it drew);
     summary_matches_split : stated with its precondition (no wildcard key, every chosen set within
                        --max-source-groups, no additional split, every (gene, variant id) named by one GVF
                        only) in docs/C18.md and checked on every case that satisfies it. *)

Example split_example :
  exists dbs, split_pool (mkCfg [(KStr [65], 0); (KStr [66], 1)] [[65]; [66]] 1 [])
                [ ([1], [mkInfo [10] [[71]] [[71]] (Some 1) [[66]]; mkInfo [11] [[71]] [[71]] (Some 2) [[65]]]);
                  ([2], [mkInfo [12] [[71]] [[71]] (Some 1) [[66]]]) ] = Ok dbs /\ length dbs = 2%nat.
Proof. eexists. split; vm_compute; reflexivity. Qed.
