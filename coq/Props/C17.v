(* C17 - parseCIRCexplorer records denote the reported circular RNA.
   Property theorems only; proofs in Proofs/CircProofs.v, model in Model/Circ.v.
   [convert_circ a r sr er] models CIRCexplorer{2,3}KnownRecord.convert_to_circ_rna for a row [r] against the
   gene and the exons of its isoform ([a]) with the intron start/end tolerance ranges [sr], [er];
   [blocks_of start sizes offsets] are the reported genomic blocks, [block_in_gene] their strand-corrected
   interval in gene coordinates; [circ_seq] models CircRNAModel.get_circ_rna_sequence;
   [cli_loop] models the record loop of moPepGen.cli.parse_circexplorer with its tally. *)
From Coq Require Import ZArith List Bool Lia.
From MoPep Require Import Model.Base Model.Vep Model.Circ Proofs.VepProofs Proofs.CircProofs.
Import ListNotations.
Open Scope Z_scope.

(* fragments = the strand-corrected reported blocks, one per block, in block order; every block lies in the gene *)
Theorem circ_fragments_are_blocks :
  forall a r sr er c,
    convert_circ a r sr er = COk c ->
    let bl := blocks_of (ce_start r) (ce_sizes r) (ce_offsets r) in
    ci_frags c = map (block_in_gene (ca_gene a)) bl /\
    length bl = length (ce_sizes r) /\
    Forall (in_gene (ca_gene a)) bl.
Proof. exact convert_circ_frags. Qed.
Print Assumptions circ_fragments_are_blocks.

(* the circular sequence read from the gene = concatenation of the reported genomic blocks in transcript
   orientation (ascending on +, reverse complement of the ascending concatenation on -) *)
Theorem circ_seq_is_block_concat :
  forall a r sr er c chrom,
    wf_gene (ca_gene a) chrom ->
    convert_circ a r sr er = COk c ->
    blocks_asc (blocks_of (ce_start r) (ce_sizes r) (ce_offsets r)) ->
    circ_seq (gene_of (ca_gene a) chrom) (ci_frags c) =
    (let cat := concat (map (fun b => slice chrom (fst b) (snd b))
                            (blocks_of (ce_start r) (ce_sizes r) (ce_offsets r))) in
     if g_strand (ca_gene a) =? 1 then cat else revcomp cat).
Proof. exact circ_seq_convert. Qed.
Print Assumptions circ_seq_is_block_concat.

(* the two numbers of the id CIRC-<tx>-<s>:<e> are the gene coordinates of the back-splice interval [start,end) *)
Theorem circ_id_backsplice :
  forall a r sr er c,
    convert_circ a r sr er = COk c ->
    (ci_id_start c, ci_id_end c) = block_in_gene (ca_gene a) (ce_start r, ce_end r) /\
    g_start (ca_gene a) <= ce_start r < g_end (ca_gene a) /\
    g_start (ca_gene a) < ce_end r <= g_end (ca_gene a).
Proof. exact convert_circ_id. Qed.
Print Assumptions circ_id_backsplice.

(* the GVF line (POS, OFFSET, LENGTH) re-creates exactly the fragments *)
Theorem circ_gvf_denotes_fragments :
  forall c, gvf_fragments (gvf_pos c) (gvf_offsets c) (gvf_lengths c) = ci_frags c.
Proof. intros c. exact (gvf_roundtrip_l (gvf_pos c) (ci_frags c)). Qed.
Print Assumptions circ_gvf_denotes_fragments.

(* skip conditions, part 1: evidence thresholds (CIRCexplorer 2: read number; 3: + FPBcirc, circscore) *)
Theorem circ_valid_exact :
  forall th r, is_valid th r = true <->
    ct_reads th <= ce_reads r /\
    (ct_ce3 th = true -> thr_ok (ct_fpb th) (ce_fpb r) /\ thr_ok (ct_score th) (ce_score r)).
Proof. exact is_valid_exact. Qed.
Print Assumptions circ_valid_exact.

(* skip conditions, part 2 (circRNA): a block is found among the transcript's exons exactly when it is one.
   [exons_asc] only asks for non-empty exons in ascending order: zero-length introns (abutting exons), 1-nt
   introns and 1-nt exons are covered *)
Theorem circ_exon_match_exact :
  forall a b,
    g_strand (ca_gene a) = 1 \/ g_strand (ca_gene a) = -1 -> exons_asc (ca_exons a) ->
    (find_exon_index a (block_in_gene (ca_gene a) b) <> None <-> In b (ca_exons a)).
Proof. exact find_exon_exact. Qed.
Print Assumptions circ_exon_match_exact.

(* skip conditions, part 3 (ciRNA).  FULL statement would be an equivalence "an intron index is returned iff some
   pair of consecutive exons matches the block within the tolerances".  Proved: the direction that matters for
   "records matching no transcript are skipped" - an index is only returned for two consecutive exons of the
   transcript whose gap matches.  Missing: the converse, which is false as stated because the first exon whose
   end matches the start tolerance decides (a later matching pair is not considered). *)
Theorem circ_intron_match_sound_partial :
  forall a b sr er j,
    g_strand (ca_gene a) = 1 \/ g_strand (ca_gene a) = -1 ->
    find_intron_index a (block_in_gene (ca_gene a) b) sr er = COk j ->
    exists n x y, nth_error (tx_exons a) n = Some x /\ nth_error (tx_exons a) (S n) = Some y /\
      (if g_strand (ca_gene a) =? 1 then intron_match_plus b x y sr er else intron_match_minus b x y sr er).
Proof. exact find_intron_sound. Qed.
Print Assumptions circ_intron_match_sound_partial.

(* skipped records are counted: every record read is either emitted, counted as insufficient evidence or counted
   as invalid; "insufficient" counts exactly the rows failing the thresholds *)
Theorem circ_skips_counted :
  forall th sr er recs t,
    cli_loop th sr er recs 0 = Some t ->
    ta_total t = Z.of_nat (length recs) /\
    Z.of_nat (length (ta_emitted t)) + ta_insufficient t + ta_invalid t = ta_total t /\
    ta_insufficient t = Z.of_nat (length (filter (fun ar => negb (is_valid th (snd ar))) recs)) /\
    0 <= ta_invalid t.
Proof. intros th sr er recs t. exact (cli_loop_tally th sr er recs 0 t). Qed.
Print Assumptions circ_skips_counted.

(* ... and row number j is emitted (with record c) exactly when it passes the thresholds and converts *)
Theorem circ_emitted_exact :
  forall th sr er recs t,
    cli_loop th sr er recs 0 = Some t ->
    forall j c, In (j, c) (ta_emitted t) <->
      exists a r, nth_error recs j = Some (a, r) /\ is_valid th r = true /\ convert_circ a r sr er = COk c.
Proof. exact cli_loop_emitted0. Qed.
Print Assumptions circ_emitted_exact.

(* non-trivial instances: a two-exon circRNA on a minus-strand gene, and a ciRNA inside the tolerances *)
Definition x_chrom : seq :=
  [71; 65; 84; 84; 65; 67; 65; 71; 71; 67; 67; 84; 84; 65; 65; 67; 67; 71; 71; 84; 84; 65; 67; 71; 84; 65; 67; 71; 65; 84;
   67; 71; 65; 84; 67; 71; 71; 67; 84; 65; 71; 67; 84; 65; 65; 67; 71; 84; 84; 65; 71; 67; 67; 71; 65; 84; 84; 65; 67; 65].
Definition x_anno := mkCanno (mkGene (-1) 5 55) [(5, 15); (20, 30); (40, 55)].
Example circ_example_minus :
  convert_circ x_anno (mkCerec 20 55 [10; 15] [0; 20] 3 0 0 0) (0, 0) (0, 0) =
  COk (mkCirc [(25, 35); (0, 15)] [] 0 35).
Proof. vm_compute. reflexivity. Qed.
Example circ_example_seq :
  circ_seq (gene_of (ca_gene x_anno) x_chrom) [(25, 35); (0, 15)] =
  revcomp (slice x_chrom 20 30 ++ slice x_chrom 40 55).
Proof. vm_compute. reflexivity. Qed.
Example circ_example_ciRNA :
  convert_circ x_anno (mkCerec 31 41 [10] [0] 3 1 0 0) (-2, 0) (-100, 5) =
  COk (mkCirc [(14, 24)] [0] 14 24).
Proof. vm_compute. reflexivity. Qed.
(* abutting exons (zero-length intron) on a minus-strand transcript: the lower exon of the pair is still found *)
Definition x_anno_abut := mkCanno (mkGene (-1) 5 55) [(5, 15); (20, 30); (30, 40); (45, 55)].
Example circ_example_abutting :
  exons_asc (ca_exons x_anno_abut) /\
  find_exon_index x_anno_abut (block_in_gene (ca_gene x_anno_abut) (20, 30)) = Some 2 /\
  convert_circ x_anno_abut (mkCerec 20 40 [10; 10] [0; 10] 3 0 0 0) (0, 0) (0, 0) =
  COk (mkCirc [(25, 35); (15, 25)] [] 15 35).
Proof. split; [cbn; lia|]. split; vm_compute; reflexivity. Qed.

(* ---- code-level tie (docs/py2coq.md): the BODY of CIRCexplorer2KnownRecord.convert_to_circ_rna (inherited unchanged
        by the CIRCexplorer3 record: the two column layouts differ only in is_valid) -- circ type decision, the block
        loop (offset look-up, two genomic -> gene conversions, strand swap, fragment location, exon / intron look-up,
        intron list), the back-splicing site and the emitted model -- translated from /repo's current source by
        harness/translate/py2coq.py into coq/Gen/Py_CIRCexplorerParser.v on every run, is Circ.convert_circ.
        Hypothesis ce_start r <= ce_end r: the code builds FeatureLocation(start_gene, end_gene) for the back-splicing
        site (ValueError for end < start); the hand model has no such check. ---- *)
From MoPep Require Gen.Py_CIRCexplorerParser.
From MoPep Require Import Proofs.Py2CoqCircProofs.

Theorem code_convert_circ_translated : Py_CIRCexplorerParser.py_convert_circ_untranslated = false.
Proof. vm_compute. reflexivity. Qed.
Print Assumptions code_convert_circ_translated.

Theorem code_convert_circ_is_model : forall a r sr er, ce_start r <= ce_end r ->
  Py_CIRCexplorerParser.py_convert_circ a r sr er = convert_circ a r sr er.
Proof. exact code_convert_circ_is_model_l. Qed.
Print Assumptions code_convert_circ_is_model.
