(* C20 - decoyFasta: one faithful, reproducible decoy per target.
   Property theorems only; proofs are in Proofs/DecoyProofs.v and Proofs/DecoyWitness.v.

   run sample cfg targets  is the model of DecoyFasta.main (Model/Decoy.v):  sample k arg  is the
   list returned by the k-th call of random.sample during the run (assumed to be a permutation of
   its argument), cfg the options, targets the records read from the input FASTA in file order.
   o_targets o = self.target_db (sorted), o_decoys o = self.decoy_db, o_records o = what is written.

   Switches of cfg:  c_shift 0 / c_keyhdr false = the code as it is;  c_shift 1 (fixed index =
   the cleavage residue) and c_keyhdr true (sort by sequence and header) = the proposed repairs.
   Theorems without a hypothesis on a switch hold for both. *)
From Coq Require Import ZArith List Bool Permutation.
From MoPep Require Gen.Expasy Model.ExpasyRef Proofs.ExpasyProofs.
From MoPep Require Import Model.Base Model.Rule Model.Digest Model.Decoy Proofs.DecoyProofs Proofs.DecoyWitness Gen.DecoyCli.
Import ListNotations.
Open Scope nat_scope.

(* every decoy sequence is a rearrangement (permutation) of its target's residues *)
Theorem decoy_perm :
  forall sample, (forall k l, Permutation (sample k l) l) ->
  forall cfg targets o, run sample cfg targets = Ok o ->
  Forall2 (fun t d => Permutation (r_seq d) (r_seq t)) (o_targets o) (o_decoys o).
Proof. exact decoy_perm_l. Qed.
Print Assumptions decoy_perm.

(* hence a decoy is isobaric with its target: same length, same count of every residue, and the same
   mass under the exact mass function of the digestion model (any weight table, any water mass) *)
From MoPep Require Import Proofs.DecoyMassProofs.
Theorem decoy_isobaric :
  forall sample, (forall k l, Permutation (sample k l) l) ->
  forall cfg targets o, run sample cfg targets = Ok o ->
  Forall2 (fun t d => length (r_seq d) = length (r_seq t) /\
                      (forall c, count_occ Z.eq_dec (r_seq d) c = count_occ Z.eq_dec (r_seq t) c) /\
                      (forall wt water, mass4 wt water (r_seq d) = mass4 wt water (r_seq t)))
          (o_targets o) (o_decoys o).
Proof. exact decoy_isobaric_l. Qed.
Print Assumptions decoy_isobaric.

(* must_keep cfg s q : q is a position of s that was requested to stay: the N terminus
   (--keep-peptide-nterm), the C terminus, a residue listed in --non-shuffle-pattern, or the
   cleavage residue (site - 1) of a cleavage site of --enzyme (rule minus exception).
   On the repaired model every such position carries the same residue in the decoy. *)
Theorem decoy_fixed_kept :
  forall sample, (forall k l, Permutation (sample k l) l) ->
  forall cfg targets o, run sample cfg targets = Ok o ->
  c_shift cfg = 1 ->
  Forall2 (fun t d => length (r_seq d) = length (r_seq t) /\
                      forall q, must_keep cfg (r_seq t) q ->
                                nth_error (r_seq d) q = nth_error (r_seq t) q)
          (o_targets o) (o_decoys o).
Proof. exact decoy_fixed_kept_l. Qed.
Print Assumptions decoy_fixed_kept.

(* FINDING D7: on the faithful model of the unchanged code (c_shift = 0: the fixed index is
   match.end(), the residue after the cleavage residue) the statement fails:
   target AKCDE, --enzyme trypsin, reverse  ->  ADCKE, the cleavage residue K moved. *)
Theorem decoy_fixed_kept_refuted :
  exists cfg targets o t d q,
    c_shift cfg = 0 /\ run id_sample cfg targets = Ok o /\
    o_targets o = [t] /\ o_decoys o = [d] /\
    must_keep cfg (r_seq t) q /\ nth_error (r_seq d) q <> nth_error (r_seq t) q.
Proof. exact decoy_fixed_kept_refuted_l. Qed.
Print Assumptions decoy_fixed_kept_refuted.

(* exactly one decoy per target, in the same position of decoy_db as its target in target_db,
   whose header is the target header with the decoy string attached *)
Theorem one_decoy_per_target :
  forall sample, (forall k l, Permutation (sample k l) l) ->
  forall cfg targets o, run sample cfg targets = Ok o ->
  length (o_decoys o) = length targets /\
  length (o_records o) = 2 * length targets /\
  Forall2 (fun t d => r_hdr d = decoy_header cfg (r_hdr t)) (o_targets o) (o_decoys o).
Proof. exact one_decoy_per_target_l. Qed.
Print Assumptions one_decoy_per_target.

(* the written records are exactly the input targets (unchanged, same multiplicity) plus the decoys *)
Theorem targets_unchanged :
  forall sample, (forall k l, Permutation (sample k l) l) ->
  forall cfg targets o, run sample cfg targets = Ok o ->
  Permutation (o_targets o) targets /\ Permutation (o_records o) (targets ++ o_decoys o).
Proof. exact targets_unchanged_l. Qed.
Print Assumptions targets_unchanged.

(* the requested output order: juxtaposed = target i at 2i, its decoy at 2i+1 *)
Theorem order_respected :
  forall sample, (forall k l, Permutation (sample k l) l) ->
  forall cfg targets o, run sample cfg targets = Ok o ->
  ((c_order cfg = 0)%Z ->
     forall i, i < length targets ->
       nth_error (o_records o) (2 * i) = nth_error (o_targets o) i /\
       nth_error (o_records o) (2 * i + 1) = nth_error (o_decoys o) i) /\
  ((c_order cfg = 1)%Z -> o_records o = o_targets o ++ o_decoys o) /\
  ((c_order cfg = 2)%Z -> o_records o = o_decoys o ++ o_targets o).
Proof. exact order_respected_l. Qed.
Print Assumptions order_respected.

(* the whole run (hence the set of records) does not depend on the order of the targets in the
   input: with the repaired sort key unconditionally; with the unchanged key (sequence only) when
   different records have different sequences *)
Theorem order_independent :
  forall sample cfg targets targets',
  Permutation targets targets' ->
  (c_keyhdr cfg = true \/
   forall x y, In x targets -> In y targets -> x = y \/ r_seq x <> r_seq y) ->
  run sample cfg targets = run sample cfg targets'.
Proof. exact order_independent_l. Qed.
Print Assumptions order_independent.

(* FINDING C20-dup-order: with the unchanged sort key, --method shuffle and two targets that share
   a sequence under different headers, the set of written records depends on the input order *)
Theorem order_independent_refuted :
  exists sample cfg ts ts' o o' r,
    (forall k l, Permutation (sample k l) l) /\ c_keyhdr cfg = false /\ c_method cfg = 1%Z /\
    Permutation ts ts' /\ run sample cfg ts = Ok o /\ run sample cfg ts' = Ok o' /\
    In r (o_records o) /\ ~ In r (o_records o').
Proof. exact order_independent_refuted_l. Qed.
Print Assumptions order_independent_refuted.

(* same sample stream => same output (the only source of non-determinism is random.sample) *)
Theorem reproducible :
  forall s1 s2, (forall k l, s1 k l = s2 k l) ->
  forall cfg targets, run s1 cfg targets = run s2 cfg targets.
Proof. exact reproducible_l. Qed.
Print Assumptions reproducible.

(* stronger: only the answers to the o_calls o calls actually made matter *)
Theorem reproducible_prefix :
  forall s1 s2 cfg targets o,
  run s1 cfg targets = Ok o ->
  (forall k l, k < o_calls o -> s1 k l = s2 k l) ->
  run s2 cfg targets = Ok o.
Proof. exact reproducible_prefix_l. Qed.
Print Assumptions reproducible_prefix.

(* the hypotheses "run ... = Ok o" above are satisfiable for every supported option value:
   the retry fuel is never exhausted and ValueError arises only from an unsupported method/order *)
Theorem run_total :
  forall sample cfg targets,
  (c_method cfg = 0 \/ c_method cfg = 1)%Z ->
  (c_order cfg = 0 \/ c_order cfg = 1 \/ c_order cfg = 2)%Z ->
  exists o, run sample cfg targets = Ok o.
Proof. exact run_total_l. Qed.
Print Assumptions run_total.

(* Tie to the source, re-checked against the regenerated Gen/DecoyCli.v on every run: the option
   values the code dispatches on are exactly the ones the model encodes (method 0/1, order 0/1/2,
   in this order), every value the CLI accepts is one of them (so run_total applies to every
   accepted command line), and the way cleavage sites enter fixed_indices is one of the two
   forms the model has a switch for (c_shift 0 or 1). *)
Theorem cli_options_modelled :
  handled_methods = [name_reverse; name_shuffle] /\
  handled_orders = [name_juxtaposed; name_target_first; name_decoy_first] /\
  forallb (fun m => mem_seq m handled_methods) cli_methods = true /\
  forallb (fun m => mem_seq m handled_orders) cli_orders = true /\
  (site_index_shift = 0 \/ site_index_shift = 1)%Z.
Proof. exact cli_options_modelled_l. Qed.
Print Assumptions cli_options_modelled.

(* The specification is fixed on the property side (spec_switches: fixed index = cleavage residue,
   sort key = (sequence, full header)); under it the two conditional theorems above hold
   unconditionally: *)
Theorem spec_fixed_kept_and_order_free :
  forall sample, (forall k l, Permutation (sample k l) l) ->
  forall cfg, spec_switches cfg ->
  (forall targets o, run sample cfg targets = Ok o ->
     Forall2 (fun t d => length (r_seq d) = length (r_seq t) /\
                         forall q, must_keep cfg (r_seq t) q ->
                                   nth_error (r_seq d) q = nth_error (r_seq t) q)
             (o_targets o) (o_decoys o)) /\
  (forall targets targets', Permutation targets targets' ->
     run sample cfg targets = run sample cfg targets').
Proof.
  intros sample Hs cfg [Hsh Hk]. split.
  - intros targets o Hrun. exact (decoy_fixed_kept_l sample Hs cfg targets o Hrun Hsh).
  - intros targets targets' HP. apply order_independent_l; [exact HP | left; exact Hk].
Qed.
Print Assumptions spec_fixed_kept_and_order_free.

(* ... and the switches translated from the CURRENT source (Gen/DecoyCli.v, regenerated on every
   run) are exactly the specified ones: site index = match.end() - 1, exception literal
   'trypsin_exception', sort key (x.seq, x.description).  Any other key - x.seq alone, (x.seq, x.id),
   ... - is translated to a different value and this obligation fails. *)
Theorem code_matches_spec :
  site_index_shift = 1%Z /\ trypsin_exception_literal = trypsin_exc_name /\ sort_key_variant = 1%Z.
Proof. exact code_matches_spec_l. Qed.
Print Assumptions code_matches_spec.

(* ---- code-level tie (docs/py2coq.md): the BODIES of DecoyFasta.find_fixed_indices / reverse_sequence /
        shuffle_sequence, translated from /repo's current source by harness/translate/py2coq.py into
        coq/Gen/Py_decoy_fasta.v on every run (the `while` loops on explicit fuel S (|seq| + |indices|)), are
        extensionally equal to the model functions every theorem above is about: no fuel exhaustion, no IndexError.
        For shuffle_sequence the value returned by random.sample is a parameter and its contract (a permutation
        of its argument) is the only hypothesis -- the same one decoy_perm uses. ---- *)
From MoPep Require Gen.Py_decoy_fasta.
From MoPep Require Import Model.PyRt Proofs.Py2CoqDecoyProofs.

Theorem code_decoy_functions_translated :
  Py_decoy_fasta.py_find_fixed_indices_untranslated = false /\
  Py_decoy_fasta.py_reverse_sequence_untranslated = false /\
  Py_decoy_fasta.py_shuffle_sequence_untranslated = false.
Proof. vm_compute. repeat split. Qed.
Print Assumptions code_decoy_functions_translated.

Theorem code_find_fixed_indices_is_model : forall cfg s,
  Py_decoy_fasta.py_find_fixed_indices cfg s = find_fixed_indices cfg s.
Proof. exact code_find_fixed_indices_is_model_l. Qed.
Print Assumptions code_find_fixed_indices_is_model.

Theorem code_reverse_sequence_is_model : forall s fixed,
  Py_decoy_fasta.py_reverse_sequence s fixed = POk (reverse_sequence s fixed).
Proof. exact code_reverse_sequence_is_model_l. Qed.
Print Assumptions code_reverse_sequence_is_model.

Theorem code_shuffle_sequence_is_model : forall s fixed shuffled,
  Permutation (free_indices fixed (length s)) shuffled ->
  Py_decoy_fasta.py_shuffle_sequence s fixed shuffled = POk (shuffle_sequence s fixed shuffled).
Proof. exact code_shuffle_sequence_is_model_l. Qed.
Print Assumptions code_shuffle_sequence_is_model.

(* The oracle of this property digests with the rule tables regenerated from expasy_rules.py
   (coq/Gen/Expasy.v); they must be the ExPASy reference rules (same obligation as in Props/C10.v),
   otherwise model and implementation would silently follow a changed rule together. *)
Theorem rules_are_expasy_reference : MoPep.Gen.Expasy.site_rules = MoPep.Model.ExpasyRef.reference_rules.
Proof. exact MoPep.Proofs.ExpasyProofs.rules_match_reference_proof. Qed.
Print Assumptions rules_are_expasy_reference.
