(* C16 - parseRMATS records reproduce the alternative isoform.
   Model: Model/Rmats.v (faithful model of the five RMATSParser record classes, SpliceJunction.align_to_transcript,
   the create_* constructors and the selection cascade).  Proofs: Proofs/RmatsProofs.v.

   wf_gene g chrom : strand is +1/-1, 0 <= gene start, gene end <= |chrom|, and the exons of every transcript of the
   gene are non-empty, ascending, separated by >= 1 intronic base and inside the gene.
   denotes g chrom t r alt : applying record r to the sequence of transcript t under the documented GVF semantics
   (Deletion: [START,END) removed; Insertion: gene[DONOR_START,DONOR_END) inserted after POS; Substitution:
   [START,END) replaced by gene[DONOR_START,DONOR_END); gene coordinates mapped to transcript coordinates through the
   exon list, both strands) gives exactly the sequence of the exon list alt. *)
From MoPep Require Import Model.Base Model.Rmats Proofs.RmatsProofs Gen.RmatsConst.
Open Scope Z_scope.

(* rmats_reproduces_isoform (FULL: all five event types, both strands).
   For every wf gene, every event, every record r emitted by the event's converter and the transcript
   t = g_txs[r_tx r] whose exons coincide with the event in one of its two forms (alt_X (t_exons t) ... = Some alt):
        denotes g chrom t r alt
   with  alt_se  - transcript carries U,E,D (E deleted) or U,D adjacent (E inserted);
         alt_ss  - A5SS / A3SS: the exon next to the flanking exon has the long or the short splice site, which is moved
                   to the other one (deletion of the exon's tail/head, or insertion of the adjacent intronic stretch).
                   ef = true: the alternative boundary is an exon END (A5SS on +, A3SS on -), ef = false: an exon START
                   (A3SS on +, A5SS on -). No assumption on the position of the exon in the transcript: first and last
                   exons (genomic order) are covered;
         alt_ri  - transcript spliced at upstreamEE/downstreamES (intron inserted) or one exon covers the intron (deleted);
         alt_mxe - transcript carries U,X,D with X one of the exclusive exons (substituted by the other).
   Event hypotheses are only the coordinate order rMATS guarantees (e.g. se < le < fs and ls <= se for an exon-end
   event). *)
Theorem rmats_reproduces_isoform :
  (forall g chrom es ee us ue ds de c id rs,
   wf_gene g chrom -> ue < es -> es < ee -> ee < ds ->
   se_convert g (gene_seq (g_strand g) chrom (g_start g) (g_end g)) es ee us ue ds de c = Ok (id, rs) ->
   forall r, In r rs -> forall t alt,
     0 <= r_tx r -> nth_error (g_txs g) (Z.to_nat (r_tx r)) = Some t ->
     alt_se (t_exons t) (us, ue) (es, ee) (ds, de) = Some alt ->
     denotes g chrom t r alt) /\
  (forall (five : bool) g chrom ls le ss se fs fe c id rs,
   wf_gene g chrom ->
   let ef := if five then g_strand g =? 1 else negb (g_strand g =? 1) in
   (ef = true -> se < le /\ le < fs /\ ls <= se) ->
   (ef = false -> fe < ls /\ ls < ss /\ ss <= le) ->
   ss_convert five g (gene_seq (g_strand g) chrom (g_start g) (g_end g)) ls le ss se fs fe c = Ok (id, rs) ->
   forall r, In r rs -> forall t alt,
     0 <= r_tx r -> nth_error (g_txs g) (Z.to_nat (r_tx r)) = Some t ->
     ((ef = true /\ (alt_ss (t_exons t) true le se fs = Some alt \/ alt_ss (t_exons t) true se le fs = Some alt)) \/
      (ef = false /\ (alt_ss (t_exons t) false ls ss fe = Some alt \/ alt_ss (t_exons t) false ss ls fe = Some alt))) ->
     denotes g chrom t r alt) /\
  (forall g chrom ue ds c id rs,
   wf_gene g chrom -> ue < ds ->
   ri_convert g (gene_seq (g_strand g) chrom (g_start g) (g_end g)) ue ds c = Ok (id, rs) ->
   forall r, In r rs -> forall t alt,
     0 <= r_tx r -> nth_error (g_txs g) (Z.to_nat (r_tx r)) = Some t ->
     alt_ri (t_exons t) ue ds = Some alt ->
     denotes g chrom t r alt) /\
  (forall g chrom f1s f1e f2s f2e us ue ds de c id rs,
   wf_gene g chrom -> ue < f1s -> f1s < f1e -> f1e < f2s -> f2s < f2e -> f2e < ds ->
   mxe_convert g (gene_seq (g_strand g) chrom (g_start g) (g_end g)) f1s f1e f2s f2e us ue ds de c = Ok (id, rs) ->
   forall r, In r rs -> forall t alt,
     0 <= r_tx r -> nth_error (g_txs g) (Z.to_nat (r_tx r)) = Some t ->
     (alt_mxe (t_exons t) (us, ue) (f1s, f1e) (f2s, f2e) (ds, de) = Some alt \/
      alt_mxe (t_exons t) (us, ue) (f2s, f2e) (f1s, f1e) (ds, de) = Some alt) ->
     denotes g chrom t r alt).
Proof. exact (conj rmats_se_reproduces (conj rmats_ss_reproduces (conj rmats_ri_reproduces rmats_mxe_reproduces))). Qed.
Print Assumptions rmats_reproduces_isoform.

(* no record when every junction of the event is already annotated in some isoform of the gene
   (SE: all three junctions; A5SS/A3SS: long and short; MXE: both; RI: a retaining and a splicing isoform exist) *)
Theorem rmats_novelty :
  (forall g chrom gseq es ee us ue ds de c, wf_gene g chrom ->
     annotated g (mkJ us ue ds de) -> annotated g (mkJ us ue es ee) -> annotated g (mkJ es ee ds de) ->
     se_convert g gseq es ee us ue ds de c = Ok ([], [])) /\
  (forall (five : bool) g chrom gseq ls le ss se fs fe c, wf_gene g chrom ->
     let first := if five then g_strand g =? 1 else negb (g_strand g =? 1) in
     annotated g (if first then mkJ ls le fs fe else mkJ fs fe ls le) ->
     annotated g (if first then mkJ ss se fs fe else mkJ fs fe ss se) ->
     ss_convert five g gseq ls le ss se fs fe c = Ok ([], [])) /\
  (forall g chrom gseq f1s f1e f2s f2e us ue ds de c, wf_gene g chrom ->
     annotated g (mkJ f1s f1e ds de) -> annotated g (mkJ us ue f2s f2e) ->
     mxe_convert g gseq f1s f1e f2s f2e us ue ds de c = Ok ([], [])) /\
  (forall g gseq ue ds c id rs, ri_convert g gseq ue ds c = Ok (id, rs) ->
     fst (ri_lists (g_txs g) ue ds 0) <> [] -> snd (ri_lists (g_txs g) ue ds 0) <> [] -> rs = []).
Proof.
  exact (conj rmats_novelty_se (conj rmats_novelty_ss (conj rmats_novelty_mxe rmats_novelty_ri))).
Qed.
Print Assumptions rmats_novelty.

(* no record when the read support of both forms is below the thresholds; the comparison is >= everywhere except the
   skipped form of MXE, which the code lets through only for SJC > min_sjc (so SJC <= min_sjc suffices there) *)
Theorem rmats_thresholds :
  (forall g gseq es ee us ue ds de c id rs, ijc c < min_ijc c -> sjc c < min_sjc c ->
     se_convert g gseq es ee us ue ds de c = Ok (id, rs) -> rs = []) /\
  (forall five g gseq ls le ss se fs fe c id rs, ijc c < min_ijc c -> sjc c < min_sjc c ->
     ss_convert five g gseq ls le ss se fs fe c = Ok (id, rs) -> rs = []) /\
  (forall g gseq f1s f1e f2s f2e us ue ds de c id rs, ijc c < min_ijc c -> sjc c <= min_sjc c ->
     mxe_convert g gseq f1s f1e f2s f2e us ue ds de c = Ok (id, rs) -> rs = []) /\
  (forall g gseq ue ds c id rs, ijc c < min_ijc c -> sjc c < min_sjc c ->
     ri_convert g gseq ue ds c = Ok (id, rs) -> rs = []) /\
  (forall g gseq es ee us ue ds de c c',
     (ijc c >=? min_ijc c) = (ijc c' >=? min_ijc c') -> (sjc c >=? min_sjc c) = (sjc c' >=? min_sjc c') ->
     se_convert g gseq es ee us ue ds de c = se_convert g gseq es ee us ue ds de c').
Proof.
  exact (conj rmats_thresholds_se (conj rmats_thresholds_ss (conj rmats_thresholds_mxe
        (conj rmats_thresholds_ri rmats_thresholds_only_se)))).
Qed.
Print Assumptions rmats_thresholds.

(* the 'already retained' test of RIRecord has the shape the model assumes (regenerated from the source on every run) *)
Theorem rmats_ri_test_recognised : Gen.RmatsConst.ri_test_recognised = true /\ 0 <= Gen.RmatsConst.ri_end_slack <= 3.
Proof. vm_compute. split; [reflexivity|split; discriminate]. Qed.
Print Assumptions rmats_ri_test_recognised.

(* ---- the hypotheses are satisfiable by non-trivial states ---- *)
Definition ex_chrom : list Z := (* 60 bases ACGT... *)
  flat_map (fun _ => [65; 67; 71; 84; 84; 71]) (repeat tt 10).
Definition ex_tx0 : tx := mkTx [(2, 10); (15, 22); (30, 50)] 2 50.
Definition ex_tx1 : tx := mkTx [(2, 10); (30, 50)] 2 50.
Definition ex_counts : counts := mkCounts 3 3 1 1.

(* minus strand gene with one isoform carrying U,E,D: the skipping junction is novel, one deletion is emitted for it *)
Example ex_se_skip :
  let g := mkGene (-1) 2 50 [ex_tx0] in
  wf_gene g ex_chrom /\
  exists id r, se_convert g (gene_seq (-1) ex_chrom 2 50) 15 22 2 10 30 50 ex_counts = Ok (id, [r]) /\
    r_kind r = KDel /\ alt_se (t_exons ex_tx0) (2, 10) (15, 22) (30, 50) = Some [(2, 10); (30, 50)] /\
    denotes g ex_chrom ex_tx0 r [(2, 10); (30, 50)].
Proof.
  cbv zeta. split.
  - unfold wf_gene. cbn. repeat split; try lia. intros t [<-|[]]. cbn. lia.
  - eexists. eexists. split; [vm_compute; reflexivity|]. split; [reflexivity|]. split; [reflexivity|].
    vm_compute. reflexivity.
Qed.

(* plus strand gene with one isoform carrying U,D: the inclusion junctions are novel, one insertion is emitted *)
Example ex_se_incl :
  let g := mkGene 1 2 50 [ex_tx1] in
  exists id r, se_convert g (gene_seq 1 ex_chrom 2 50) 15 22 2 10 30 50 ex_counts = Ok (id, [r]) /\
    r_kind r = KIns /\ denotes g ex_chrom ex_tx1 r [(2, 10); (15, 22); (30, 50)].
Proof.
  cbv zeta. eexists. eexists. split; [vm_compute; reflexivity|]. split; [reflexivity|]. vm_compute. reflexivity.
Qed.

(* both isoforms annotated: every junction of the event is known, nothing is emitted (rmats_novelty is not vacuous) *)
Example ex_se_known :
  let g := mkGene 1 2 50 [ex_tx0; ex_tx1] in
  annotated g (mkJ 2 10 30 50) /\ annotated g (mkJ 2 10 15 22) /\ annotated g (mkJ 15 22 30 50) /\
  se_convert g (gene_seq 1 ex_chrom 2 50) 15 22 2 10 30 50 ex_counts = Ok ([], []).
Proof.
  cbv zeta. repeat split.
  - exists ex_tx1, [], (2, 10), (30, 50), []. cbn. auto.
  - exists ex_tx0, [], (2, 10), (15, 22), [(30, 50)]. cbn. auto.
  - exists ex_tx0, [(2, 10)], (15, 22), (30, 50), []. cbn. auto.
Qed.

(* A5SS on the plus strand, short form inside the transcript's FIRST exon (the layout of seeded change C16-1): deletion of
   the exon tail; and the long form from an isoform that carries the short first exon: insertion *)
Example ex_a5ss_first_exon :
  (let g := mkGene 1 2 50 [ex_tx0] in
   exists id r, ss_convert true g (gene_seq 1 ex_chrom 2 50) 2 10 2 6 15 22 ex_counts = Ok (id, [r]) /\ r_kind r = KDel /\
     alt_ss (t_exons ex_tx0) true 10 6 15 = Some [(2, 6); (15, 22); (30, 50)] /\
     denotes g ex_chrom ex_tx0 r [(2, 6); (15, 22); (30, 50)]) /\
  (let t := mkTx [(2, 6); (15, 22); (30, 50)] 2 50 in let g := mkGene 1 2 50 [t] in
   exists id r, ss_convert true g (gene_seq 1 ex_chrom 2 50) 2 10 2 6 15 22 ex_counts = Ok (id, [r]) /\ r_kind r = KIns /\
     denotes g ex_chrom t r [(2, 10); (15, 22); (30, 50)]).
Proof.
  cbv zeta. split.
  - do 2 eexists. split; [vm_compute; reflexivity|]. split; [reflexivity|]. split; [reflexivity|]. vm_compute. reflexivity.
  - do 2 eexists. split; [vm_compute; reflexivity|]. split; [reflexivity|]. vm_compute. reflexivity.
Qed.

(* RI, minus strand: a spliced isoform gets the intron inserted; a retaining isoform (alone) gets it deleted *)
Example ex_ri :
  (let g := mkGene (-1) 2 50 [ex_tx1] in
   exists id r, ri_convert g (gene_seq (-1) ex_chrom 2 50) 10 30 ex_counts = Ok (id, [r]) /\ r_kind r = KIns /\
     alt_ri (t_exons ex_tx1) 10 30 = Some [(2, 50)] /\ denotes g ex_chrom ex_tx1 r [(2, 50)]) /\
  (let t := mkTx [(2, 50)] 2 50 in let g := mkGene (-1) 2 50 [t] in
   exists id r, ri_convert g (gene_seq (-1) ex_chrom 2 50) 10 30 ex_counts = Ok (id, [r]) /\ r_kind r = KDel /\
     denotes g ex_chrom t r [(2, 10); (30, 50)]).
Proof.
  cbv zeta. split.
  - do 2 eexists. split; [vm_compute; reflexivity|]. split; [reflexivity|]. split; [reflexivity|]. vm_compute. reflexivity.
  - do 2 eexists. split; [vm_compute; reflexivity|]. split; [reflexivity|]. vm_compute. reflexivity.
Qed.

(* the MXE skipped form at SJC = min_sjc is dropped although the SE skipped form at SJC = min_sjc is kept *)
Example ex_mxe_strict :
  let g := mkGene 1 2 50 [ex_tx0] in
  (exists id, mxe_convert g (gene_seq 1 ex_chrom 2 50) 15 22 24 27 2 10 30 50 (mkCounts 0 1 1 1) = Ok (id, [])) /\
  (exists id r, mxe_convert g (gene_seq 1 ex_chrom 2 50) 15 22 24 27 2 10 30 50 (mkCounts 0 2 1 1) = Ok (id, [r])).
Proof.
  cbv zeta. split.
  - eexists. vm_compute. reflexivity.
  - eexists. eexists. vm_compute. reflexivity.
Qed.

(* ---- code-level tie (docs/py2coq.md): the exon scan of ONE transcript in RIRecord.convert_to_variant_records (the
        iterator loop `it = iter(model.exon)`, `exon = next(it, None)`, `while exon:`: spliced when an exon ending at the
        upstream end is followed by one starting at the downstream start; retained when `exon_start < ue < ds <
        exon_end`), translated from /repo's current source by harness/translate/py2coq.py into coq/Gen/Py_RIRecord.v on
        every run (explicit fuel S (length exons), proved sufficient), is Rmats.ri_scan.  This ties the `ds < exon_end`
        test to the source BODY, not only to the constant Gen/RmatsConst.ri_end_slack. ---- *)
From MoPep Require Gen.Py_RIRecord.
From MoPep Require Import Model.PyRt Proofs.Py2CoqRmatsProofs.

Theorem code_ri_scan_translated : Py_RIRecord.py_ri_scan_untranslated = false.
Proof. vm_compute. reflexivity. Qed.
Print Assumptions code_ri_scan_translated.

Theorem code_ri_scan_is_model : forall exons ue ds,
  Py_RIRecord.py_ri_scan exons ue ds = POk (ri_scan exons ue ds).
Proof. exact code_ri_scan_is_model_l. Qed.
Print Assumptions code_ri_scan_is_model.

(* interjacent shape (the layout of seeded change C16-7): exons (50,70)(80,90)(100,130)(160,200), A3SS on the plus strand
   with long exon 100-130, short site 110, flanking exon 50-70.  The transcript carries an extra exon inside both new
   junctions; each junction yields one deletion and each deletion denotes the transcript with that junction imposed
   (not covered by rmats_reproduces_isoform, whose alt_ss needs the flanking exon next to the alternative one). *)
Definition ex_chrom2 : list Z := flat_map (fun _ => [65; 67; 71; 84; 84; 71]) (repeat tt 40).
Example ex_interjacent :
  let t := mkTx [(50, 70); (80, 90); (100, 130); (160, 200)] 50 200 in
  let g := mkGene 1 40 210 [t] in
  alt_ss (t_exons t) false 100 110 70 = None /\
  exists id r1 r2, ss_convert false g (gene_seq 1 ex_chrom2 40 210) 100 130 110 130 50 70 ex_counts = Ok (id, [r1; r2]) /\
    impose_junction (t_exons t) 70 100 = Some [(50, 70); (100, 130); (160, 200)] /\
    denotes g ex_chrom2 t r1 [(50, 70); (100, 130); (160, 200)] /\
    impose_junction (t_exons t) 70 110 = Some [(50, 70); (110, 130); (160, 200)] /\
    denotes g ex_chrom2 t r2 [(50, 70); (110, 130); (160, 200)].
Proof.
  cbv zeta. split; [reflexivity|]. do 3 eexists. split; [vm_compute; reflexivity|].
  split; [reflexivity|]. split; [vm_compute; reflexivity|]. split; [reflexivity|]. vm_compute. reflexivity.
Qed.
