(* C12 -- Index directory: each parameter set maps to its own, faithful data.
   Property theorems only; proofs are in Proofs/IndexProofs.v.  Model: Model/Index.v
   (generateIndex / updateIndex / load_references on a directory = metadata.json x reference files x pool
   files; every operation carries the running environment's version triple).
   All statements are for ALL operation sequences (any length, any parameter sets, any environments),
   by induction over the history; `reachable d` = d is the directory after some history that started
   from an empty directory (or one that only holds unrelated entries). *)
From Coq Require Import ZArith List Bool Lia.
From MoPep Require Import Model.Base Model.Index Gen.Version Proofs.IndexProofs.
Import ListNotations.
Open Scope Z_scope.

(* ---- the hypotheses are satisfiable by non-trivial states ---- *)
Definition ex_env : version := mkV [51; 46; 49; 50] [49; 46; 56; 56] mopepgen_version.          (* 3.12 / 1.88 / this moPepGen *)
Definition ex_old : version := mkV [51; 46; 49; 50] [49; 46; 56; 56] [49; 46; 50; 46; 57].      (* ... / 1.2.9 *)
Definition ex_p0 : params := mkP lit_trypsin (Some lit_auto) 2 5000000 7 25.
Definition ex_p1 : params := mkP lit_trypsin (Some lit_trypsin_exception) 2 5000000 7 25.
Definition ex_p2 : params := mkP [108; 121; 115; 99] (Some lit_auto) 1 5000000 7 25.           (* lysc *)
Definition ex_hist : list (version * op) :=
  [(ex_env, OpGenerate 0 ex_p0 false); (ex_env, OpUpdate ex_p2 false); (ex_env, OpUpdate ex_p1 true);
   (ex_env, OpLoad ex_p1); (ex_env, OpUpdate ex_p1 false); (ex_env, OpGenerate 1 ex_p2 false)].

(* a history reaching a directory with two pools; P0 (auto) and P1 (trypsin_exception) are the SAME
   parameter set after resolution: loading with P1 returns the pool generated for P0, a second
   registration is refused (exit 1), generateIndex without --force is refused (exit 1) *)
Example reachable_two_pools :
  let d := fst (run (init_disk false) ex_hist) in
  reachable d /\
  snd (run (init_disk false) ex_hist) = [OOk; OOk; OOk; OLoaded (0, resolve ex_p0) 0; OExit1; OExit1] /\
  (exists m, d_meta d = Some m /\ map pm_index (m_pools m) = [1; 2] /\
             map pm_file (m_pools m) = [filename_of 1; filename_of 2]) /\
  resolve ex_p0 = resolve ex_p1 /\ resolve ex_p0 <> resolve ex_p2 /\
  is_valid ex_env (load_version ex_env ex_env) = VTrue /\ is_valid ex_env (load_version ex_env ex_old) = VFalse.
Proof.
  cbv zeta.
  split; [exists false, ex_hist; reflexivity|].
  split; [vm_compute; reflexivity|].
  split; [eexists; split; [vm_compute; reflexivity | split; vm_compute; reflexivity]|].
  split; [vm_compute; reflexivity|].
  split; [vm_compute; discriminate|].
  split; vm_compute; reflexivity.
Qed.

(* ---- the regenerated constants are the ones the model understands: version constants parse, the
        'auto' literals have the expected shape, equality compares exactly the six jsonfy keys, the
        numbering rule is max+1, the pool is built with the RESOLVED exception (D8 guard) ---- *)
Theorem index_constants_understood : index_constants_ok = true.
Proof. exact constants_ok. Qed.
Print Assumptions index_constants_understood.

(* an index written by this moPepGen version is accepted by this moPepGen version *)
Theorem own_version_valid : forall py bio,
  is_valid (mkV py bio mopepgen_version) (mkV py bio mopepgen_version) = VTrue.
Proof.
  intros py bio. apply is_valid_true_iff. cbn [v_py v_bio v_mpg]. repeat split.
  vm_compute. eexists. eexists. repeat split.
Qed.
Print Assumptions own_version_valid.

(* equality of parameter sets as the index sees it (all six jsonfy keys) is equality of the RESOLVED
   tuples; 'auto' never survives resolution and resolution is idempotent (what metadata.json stores
   is a fixed point, so re-reading it changes nothing) *)
Theorem params_equality : forall a b,
  (params_eqb (resolve a) (resolve b) = true <-> resolve a = resolve b) /\
  resolve (resolve a) = resolve a /\ p_exc (resolve a) <> Some lit_auto.
Proof. intros a b. split; [apply params_eqb_iff | split; [apply resolve_idem | apply resolve_never_auto]]. Qed.
Print Assumptions params_equality.

(* REFINEMENT: every history refines the dictionary specification `arun` (a finite map
   resolved parameters -> pool per reference, Model/Index.v astep): same outcome for every operation
   (in particular every `load p` returns the map's value for `resolve p`, or the error), the reached
   directory abstracts to the reached dictionary, and the invariant holds *)
Theorem index_refines_map : forall other ops,
  wf (fst (run (init_disk other) ops)) /\
  abs (fst (run (init_disk other) ops)) = fst (arun (init_a other) ops) /\
  snd (run (init_disk other) ops) = snd (arun (init_a other) ops).
Proof. exact index_refines_map_l. Qed.
Print Assumptions index_refines_map.

(* a load that returns a pool returns the pool that was built for exactly the requested (resolved)
   parameters on the reference whose genome/annotation/proteome are returned with it -- never a pool
   registered under other parameters or left over from another reference *)
Theorem load_returns_own_params : forall d cur p c r, reachable d -> load cur p d = OLoaded c r ->
  c = (r, resolve p) /\ d_ref d = Some r /\
  exists m pm, d_meta d = Some m /\ In pm (m_pools m) /\ pm_params pm = resolve p /\
               lookup_file (pm_file pm) (d_files d) = Some c.
Proof. intros d cur p c r H. apply wf_load_own. apply reachable_wf. exact H. Qed.
Print Assumptions load_returns_own_params.

(* requested parameters that match no registered pool are rejected with an error *)
Theorem load_unknown_params_rejected : forall d cur p m, reachable d -> d_meta d = Some m ->
  (forall pm, In pm (m_pools m) -> pm_params pm <> resolve p) ->
  load cur p d = OErrNoPool \/ load cur p d = OErrVersion \/ load cur p d = OErrSemver.
Proof. intros d cur p m H. apply wf_load_unknown. apply reachable_wf. exact H. Qed.
Print Assumptions load_unknown_params_rejected.

(* no two registered pools have the same (resolved) parameters, file name or index; every file name
   is the one derived from its index; the pool files on disk are exactly the registered ones *)
Theorem no_duplicate_params : forall d m, reachable d -> d_meta d = Some m ->
  NoDup (map pm_params (m_pools m)) /\ NoDup (map pm_file (m_pools m)) /\ NoDup (map pm_index (m_pools m)) /\
  (forall pm, In pm (m_pools m) -> pm_params pm = resolve (pm_params pm) /\ pm_file pm = filename_of (pm_index pm) /\ 1 <= pm_index pm) /\
  map fst (d_files d) = map pm_file (m_pools m).
Proof. intros d m H. apply wf_no_dup. apply reachable_wf. exact H. Qed.
Print Assumptions no_duplicate_params.

(* file names are injective in the index *)
Theorem filename_injective : forall i j, 0 <= i -> 0 <= j -> filename_of i = filename_of j -> i = j.
Proof. exact filename_inj. Qed.
Print Assumptions filename_injective.

(* adding a pool: its index exceeds every existing index, its file name is not in use, and the
   directory's pool files afterwards are the old ones, unchanged, followed by the new one *)
Theorem filenames_fresh : forall d m cur p force d', reachable d -> d_meta d = Some m ->
  get_pool (resolve p) (m_pools m) = None ->
  update cur p force d = (d', OOk) ->
  let i := next_index (m_pools m) in
  (forall pm, In pm (m_pools m) -> pm_index pm < i) /\
  ~ In (filename_of i) (map fst (d_files d)) /\
  d_files d' = d_files d ++ [(filename_of i, (match d_ref d with Some r => r | None => 0 end, resolve p))] /\
  exists m', d_meta d' = Some m' /\ m_pools m' = m_pools m ++ [mkPM (filename_of i) i (resolve p)].
Proof. intros d m cur p force d' H. apply wf_update_fresh. apply reachable_wf. exact H. Qed.
Print Assumptions filenames_fresh.

(* existing pools are unaffected by ANY updateIndex (new pool, --force overwrite, refused, rejected)
   for other parameters: what is found for q, what load returns for q, and the reference data *)
Theorem existing_pools_unaffected : forall d cur p force q, reachable d -> resolve q <> resolve p ->
  pool_of (fst (update cur p force d)) q = pool_of d q /\
  load cur q (fst (update cur p force d)) = load cur q d /\
  d_ref (fst (update cur p force d)) = d_ref d.
Proof. intros d cur p force q H. apply wf_update_others. apply reachable_wf. exact H. Qed.
Print Assumptions existing_pools_unaffected.

(* VERSION GATE, for ANY directory (reachable or not): if the recorded version triple, as read back
   by MetaVersion (empty field -> running value), is not valid for the running environment, then
   updateIndex and load_references raise (InvalidIndexError, or the ValueError of an unparsable
   version) and leave the directory untouched *)
Theorem version_gate : forall cur d m, d_meta d = Some m ->
  is_valid cur (load_version cur (m_ver m)) <> VTrue ->
  (forall p force, exists o, update cur p force d = (d, o) /\ (o = OErrVersion \/ o = OErrSemver)) /\
  (forall p, load cur p d = OErrVersion \/ load cur p d = OErrSemver).
Proof. exact version_gate_l. Qed.
Print Assumptions version_gate.

(* ... and nothing is loaded from, or added to, an index unless the gate passed *)
Theorem version_gate_needed : forall cur d m p, d_meta d = Some m ->
  (forall c r, load cur p d = OLoaded c r -> is_valid cur (load_version cur (m_ver m)) = VTrue) /\
  (forall force d', update cur p force d = (d', OOk) -> is_valid cur (load_version cur (m_ver m)) = VTrue).
Proof. exact gate_needed_l. Qed.
Print Assumptions version_gate_needed.

(* MetaVersion.is_valid, declaratively: same python, same biopython, and the recorded moPepGen
   version parses to a tuple that is >= the minimal version in Python's tuple order *)
Theorem is_valid_spec : forall cur rec, is_valid cur rec = VTrue <->
  v_py cur = v_py rec /\ v_bio cur = v_bio rec /\
  exists that minimal, get_semver (v_mpg rec) = Some that /\ get_semver minimal_version = Some minimal /\
                       lex_ge that minimal = true.
Proof. exact is_valid_true_iff. Qed.
Print Assumptions is_valid_spec.

Theorem tuple_order_spec : forall a b, lex_ge a b = true <->
  (exists s, a = b ++ s) \/
  (exists p x y a' b', a = p ++ x :: a' /\ b = p ++ y :: b' /\ x > y).
Proof. exact lex_ge_spec. Qed.
Print Assumptions tuple_order_spec.

(* a refused / rejected updateIndex leaves the directory exactly as it was; generateIndex without
   --force never touches a non-empty directory *)
Theorem rejected_ops_change_nothing :
  (forall cur p force d d' o, update cur p force d = (d', o) -> o <> OOk -> d' = d) /\
  (forall cur ref p d, nonempty d = true -> generate cur ref p false d = (d, OExit1)).
Proof. split; [exact update_not_ok_unchanged | exact generate_noforce_l]. Qed.
Print Assumptions rejected_ops_change_nothing.

(* ---- code-level tie (docs/py2coq.md): the BODIES of IndexMetadata.get_canonical_pool / register_canonical_pool
        (index.py) and MetaVersion.is_valid_mpg_version / is_valid (version.py), translated from /repo's current source
        by harness/translate/py2coq.py into coq/Gen/Py_index.v / Py_version.v on every run, are extensionally equal to
        the model functions: first-match look-up, ValueError when registered twice, `max + 1 | 1` numbering, the file
        name and the appended entry; the short-circuit order of is_valid with `that` parsed before `minimal`. ---- *)
From MoPep Require Gen.Py_index Gen.Py_version.
From MoPep Require Import Proofs.Py2CoqIndexProofs.

Theorem code_index_functions_translated :
  Py_index.py_get_canonical_pool_untranslated = false /\
  Py_index.py_register_canonical_pool_untranslated = false /\
  Py_version.py_is_valid_mpg_version_untranslated = false /\
  Py_version.py_is_valid_untranslated = false.
Proof. vm_compute. repeat split. Qed.
Print Assumptions code_index_functions_translated.

Theorem code_get_canonical_pool_is_model : forall m cp,
  Py_index.py_get_canonical_pool m cp = get_pool cp (m_pools m).
Proof. exact code_get_canonical_pool_is_model_l. Qed.
Print Assumptions code_get_canonical_pool_is_model.

Theorem code_register_canonical_pool_is_model : forall m cp,
  Py_index.py_register_canonical_pool m cp = register m cp.
Proof. exact code_register_canonical_pool_is_model_l. Qed.
Print Assumptions code_register_canonical_pool_is_model.

Theorem code_is_valid_is_model : forall cur rec,
  Py_version.py_is_valid cur rec = is_valid cur rec.
Proof. exact code_is_valid_is_model_l. Qed.
Print Assumptions code_is_valid_is_model.
