(* C03 - FASTA headers are truthful witnesses.  Level S: theorems about the specification; the engine
   is tied to witness_ok / entries_unique by the correspondence harness/props/c03.py only. *)
From MoPep Require Gen.Expasy Model.ExpasyRef Proofs.ExpasyProofs.
From MoPep Require Import Model.Base Model.Rule Model.Digest Model.Spec Model.SpecStmt Gen.Bio
                          Proofs.SpecProofs Model.W2F Model.SpecAlt Model.SpecAltStmt Proofs.SpecAltProofs.
Open Scope Z_scope.

(* The C03 decider is the property's statement (Witness): every named index denotes a supplied record,
   and the transcript carrying EXACTLY the named records has p among its digestion products. *)
Theorem witness_ok_iff : forall x p ids, witness_ok x p ids = true <-> Witness x p ids.
Proof. exact witness_ok_iff_lemma. Qed.
Print Assumptions witness_ok_iff.

(* "exactly the named variants and no others": the haplotype the decider applies consists of the
   supplied records at the named positions, and of nothing else *)
Theorem named_exact : forall x ids v,
  In v (named x ids) <-> exists i, In i ids /\ nth_error (in_vars x) i = Some v.
Proof. exact named_spec_lemma. Qed.
Print Assumptions named_exact.

(* a witness is in particular realizable: C03 refines C02 *)
Theorem witness_realizable : forall x p ids, witness_ok x p ids = true ->
  exists h, nonempty h = true /\ pairwise false h = true /\ MayProduct x h p.
Proof. intros x p ids H. apply witness_ok_iff_lemma in H as (_ & H). exists (named x ids). exact H. Qed.
Print Assumptions witness_realizable.

(* entries that also name generated SECT / W2F identifiers: exactly the named records are applied and the
   forms used are exactly the kinds named (WitnessFl, Model/SpecAltStmt.v) *)
Theorem witness_ok_fl_iff : forall x p ids sect w2f,
  witness_ok_fl x p ids sect w2f = true <-> WitnessFl x p ids sect w2f.
Proof. exact witness_ok_fl_iff_lemma. Qed.
Print Assumptions witness_ok_fl_iff.

(* every header entry string occurs at most once *)
Theorem entries_unique_iff : forall es, entries_unique es = true <-> NoDup es.
Proof. exact entries_unique_iff_lemma. Qed.
Print Assumptions entries_unique_iff.

(* Non-vacuity: in the example of C01, naming record 0 is a witness for MAKDWR; naming nothing is not *)
Definition ex_tx3 : seq := [65;84;71; 71;67;84; 65;65;65; 71;71;84; 84;71;71; 67;71;84; 84;65;65].
Definition ex_input3 : input :=
  mkInput ex_tx3 true 0 false false [] [mkVar 10 11 [65] true]
          [mkAlt [] (CIn [75; 82]) [CNotIn [80]]] None (mkLimits 1 0 3 30) [].
Example witness_nonvacuous :
  witness_ok ex_input3 [77;65;75;68;87;82] [0%nat] = true /\ witness_ok ex_input3 [77;65;75;68;87;82] [] = false.
Proof. vm_compute. split; reflexivity. Qed.

(* The oracle of this property digests with the rule tables regenerated from expasy_rules.py
   (coq/Gen/Expasy.v); they must be the ExPASy reference rules (same obligation as in Props/C10.v),
   otherwise model and implementation would silently follow a changed rule together. *)
Theorem rules_are_expasy_reference : MoPep.Gen.Expasy.site_rules = MoPep.Model.ExpasyRef.reference_rules.
Proof. exact MoPep.Proofs.ExpasyProofs.rules_match_reference_proof. Qed.
Print Assumptions rules_are_expasy_reference.

(* ------------------------------------------------------------------ position-exact generated identifiers *)
(* Model/SpecAltPos.v: SECT-n names ONE annotated Sec codon (n -> its transcript position s), W2F-i one residue
   of the printed peptide.  The decider is the statement WitnessPos: exactly the named records are applied;
   with no SECT id no Sec codon terminates translation, with one the peptide is a product (limits lifted) cut in
   front of the U translated from exactly that codon (SectAt), two cannot both terminate it; the W>F step
   replaces exactly the named residues, all of them W, by F. *)
From MoPep Require Import Model.SpecAltPos Proofs.SpecAltPosProofs.

Theorem witness_ok_pos_iff : forall x p ids sect_ids w2f_ids,
  witness_ok_pos x p ids sect_ids w2f_ids = true <-> WitnessPos x p ids sect_ids w2f_ids.
Proof. exact witness_ok_pos_iff_lemma. Qed.
Print Assumptions witness_ok_pos_iff.

(* it refines the kind-only decider: a position-exact witness is a witness_ok_fl witness of the kinds named *)
Theorem witness_ok_pos_implies_fl : forall x p ids sect_ids w2f_ids,
  witness_ok_pos x p ids sect_ids w2f_ids = true ->
  witness_ok_fl x p ids (nonempty sect_ids) (nonempty w2f_ids) = true.
Proof. exact witness_ok_pos_implies_fl_lemma. Qed.
Print Assumptions witness_ok_pos_implies_fl.

(* no generated identifier: the plain decider *)
Theorem witness_ok_pos_plain : forall x p ids, witness_ok_pos x p ids [] [] = witness_ok x p ids.
Proof. exact witness_ok_pos_plain_lemma. Qed.
Print Assumptions witness_ok_pos_plain.

(* the place carried by a positioned product is real: forgetting it gives exactly the products of Model/Spec.v,
   and the product occupies the residues off .. off+|p| of the translation *)
Theorem pos_product_is_product : forall x nf tail tr p,
  (exists off, PosProduct x nf tail tr p off) <-> Product x nf tail tr p.
Proof. exact PosProduct_Product. Qed.
Print Assumptions pos_product_is_product.

Theorem pos_product_occurs : forall x nf tail tr p off,
  PosProduct x nf tail tr p off -> p = piece (fst tr) off (off + length p).
Proof. exact pos_product_occurs_lemma. Qed.
Print Assumptions pos_product_occurs.

(* "terminating translation exactly at the named Sec codon and at no other": residue k of a translation is U
   only when its codon position is an active Sec position, and with THAT position removed from the active set
   (all others kept) translation stops there: the result is the prefix in front of that U, closed by a stop.
   (codon table regenerated from the installed Biopython: no codon translates to U) *)
Theorem sect_terminates_at_named : forall k s i secs,
  nth_error (fst (translate s i secs)) k = Some Spec.U_code ->
  memZ (i + 3 * Z.of_nat k) secs = true /\
  translate s i (removeZ (i + 3 * Z.of_nat k) secs) = (firstn k (fst (translate s i secs)), true).
Proof. exact (translate_sect_lemma bio_codon_no_U_lemma). Qed.
Print Assumptions sect_terminates_at_named.

(* "exactly the named W and no other": base and image differ exactly at the named positions, W there in the
   base, F in the image *)
Theorem w2f_pos_exact : forall S b p, sublist S (w_positions b) -> p = apply_w2f S b ->
  length p = length b /\
  forall j, (j < length b)%nat ->
    (In j S -> nth j b 0 = W_code /\ nth j p 0 = F_code) /\
    (~ In j S -> nth j p 0 = nth j b 0).
Proof. exact w2f_pos_exact_lemma. Qed.
Print Assumptions w2f_pos_exact.

(* Non-vacuity and the shape of the two seeded defects.  ATG GCT AAA GGT TGG GCT TGG TGA GCT CGT TAA =
   M A K G W A W U A R *, Sec codon annotated at 21, record 0 = SNV G>A at 10 (G -> D).  DWAWUAR starts at
   codon 9; cut in front of the U of codon 21: DWAW; W2F-2|W2F-4: DFAF.
   - DFAW labelled W2F-2|W2F-4 (only one substitution applied, seeded C03-4) is NOT a witness; labelled W2F-2 it is
   - a SECT id naming another position (20) is not a witness
   - without the record (the G is needed for ... D) nothing is a witness *)
Definition ex_tx4 : seq := [65;84;71; 71;67;84; 65;65;65; 71;71;84; 84;71;71; 71;67;84; 84;71;71; 84;71;65;
                            71;67;84; 67;71;84; 84;65;65].
Definition ex_input4 : input :=
  mkInput ex_tx4 true 0 false false [21] [mkVar 10 11 [65] true]
          [mkAlt [] (CIn [75; 82]) [CNotIn [80]]] None (mkLimits 1 0 3 30) [].
Example witness_pos_nonvacuous :
  witness_ok_pos ex_input4 [68;70;65;70] [0%nat] [21] [1%nat; 3%nat] = true /\
  witness_ok_pos ex_input4 [68;70;65;87] [0%nat] [21] [1%nat; 3%nat] = false /\
  witness_ok_pos ex_input4 [68;70;65;87] [0%nat] [21] [1%nat] = true /\
  witness_ok_pos ex_input4 [68;87;65;87] [0%nat] [21] [] = true /\
  witness_ok_pos ex_input4 [68;87;65;87] [0%nat] [20] [] = false /\
  witness_ok_pos ex_input4 [68;87;65;87] [0%nat] [] [] = false /\
  witness_ok_pos ex_input4 [68;87;65;87;85;65;82] [0%nat] [] [] = true /\
  witness_ok_pos ex_input4 [68;70;65;70] [] [21] [1%nat; 3%nat] = false.
Proof. vm_compute. repeat split; reflexivity. Qed.
