(* C03 - FASTA headers are truthful witnesses.  Level S: theorems about the specification; the engine
   is tied to witness_ok / entries_unique by the correspondence harness/props/c03.py only. *)
From MoPep Require Gen.Expasy Model.ExpasyRef Proofs.ExpasyProofs.
From MoPep Require Import Model.Base Model.Rule Model.Digest Model.Spec Model.SpecStmt Gen.Bio
                          Proofs.SpecProofs Model.W2F Model.SpecAlt Model.SpecAltStmt Proofs.SpecAltProofs.
Open Scope Z_scope.

(* The C03 decider is the property's statement (Witness): every named index denotes a supplied record,
   and the transcript carrying EXACTLY the named records has p among its digestion products. *)
Theorem witness_ok_iff : forall x p ids, witness_ok x p ids = true <-> Witness x p ids.
Proof. exact witness_ok_iff_lemma. Qed.
Print Assumptions witness_ok_iff.

(* "exactly the named variants and no others": the haplotype the decider applies consists of the
   supplied records at the named positions, and of nothing else *)
Theorem named_exact : forall x ids v,
  In v (named x ids) <-> exists i, In i ids /\ nth_error (in_vars x) i = Some v.
Proof. exact named_spec_lemma. Qed.
Print Assumptions named_exact.

(* a witness is in particular realizable: C03 refines C02 *)
Theorem witness_realizable : forall x p ids, witness_ok x p ids = true ->
  exists h, nonempty h = true /\ pairwise false h = true /\ MayProduct x h p.
Proof. intros x p ids H. apply witness_ok_iff_lemma in H as (_ & H). exists (named x ids). exact H. Qed.
Print Assumptions witness_realizable.

(* entries that also name generated SECT / W2F identifiers: exactly the named records are applied and the
   forms used are exactly the kinds named (WitnessFl, Model/SpecAltStmt.v) *)
Theorem witness_ok_fl_iff : forall x p ids sect w2f,
  witness_ok_fl x p ids sect w2f = true <-> WitnessFl x p ids sect w2f.
Proof. exact witness_ok_fl_iff_lemma. Qed.
Print Assumptions witness_ok_fl_iff.

(* every header entry string occurs at most once *)
Theorem entries_unique_iff : forall es, entries_unique es = true <-> NoDup es.
Proof. exact entries_unique_iff_lemma. Qed.
Print Assumptions entries_unique_iff.

(* Non-vacuity: in the example of C01, naming record 0 is a witness for MAKDWR; naming nothing is not *)
Definition ex_tx3 : seq := [65;84;71; 71;67;84; 65;65;65; 71;71;84; 84;71;71; 67;71;84; 84;65;65].
Definition ex_input3 : input :=
  mkInput ex_tx3 true 0 false false [] [mkVar 10 11 [65] true]
          [mkAlt [] (CIn [75; 82]) [CNotIn [80]]] None (mkLimits 1 0 3 30) [].
Example witness_nonvacuous :
  witness_ok ex_input3 [77;65;75;68;87;82] [0%nat] = true /\ witness_ok ex_input3 [77;65;75;68;87;82] [] = false.
Proof. vm_compute. split; reflexivity. Qed.

(* The oracle of this property digests with the rule tables regenerated from expasy_rules.py
   (coq/Gen/Expasy.v); they must be the ExPASy reference rules (same obligation as in Props/C10.v),
   otherwise model and implementation would silently follow a changed rule together. *)
Theorem rules_are_expasy_reference : MoPep.Gen.Expasy.site_rules = MoPep.Model.ExpasyRef.reference_rules.
Proof. exact MoPep.Proofs.ExpasyProofs.rules_match_reference_proof. Qed.
Print Assumptions rules_are_expasy_reference.
