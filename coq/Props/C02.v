(* C02 - soundness of callVariant.  Level S: theorems about the specification Model/Spec.v; the engine
   is tied to `realizable` by the correspondence harness/props/c02.py only. *)
From MoPep Require Gen.Expasy Model.ExpasyRef Proofs.ExpasyProofs.
From MoPep Require Import Model.Base Model.Rule Model.Digest Model.Spec Model.SpecStmt Gen.Bio
                          Proofs.SpecProofs Model.Retry Proofs.RetryProofs Model.W2F Model.SpecAlt Model.SpecAltStmt Proofs.SpecAltProofs
                          Model.SpecFusion Proofs.SpecFusionProofs.
Open Scope Z_scope.

(* The C02 decider is the property's statement (Realizable, Model/SpecStmt.v): some non-empty, pairwise
   compatible subset of the supplied records, a permitted start site, a permitted reading of the Sec
   codons the subset touches, such that p is a digestion product within the miscleavage limit,
   possibly after N-terminal Met removal, of the translation of the transcript carrying the subset. *)
Theorem realizable_iff : forall x p, realizable x p = true <-> Realizable x p.
Proof. exact realizable_iff_lemma. Qed.
Print Assumptions realizable_iff.

(* MUST is inside MAY: whatever C01 obliges, C02 permits (the bracket is consistent) *)
Theorem must_sub_may : forall x p, In p (must_set x) -> realizable x p = true.
Proof. exact must_sub_may_lemma. Qed.
Print Assumptions must_sub_may.

(* Abstract graph (DESIGN Appendix B, drop): peptides spelled along the routes of a graph from which
   nodes were removed (complexity limits: alive n = false) are peptides of the unrestricted graph:
   limits skip routes, they never invent one.  Any fuel, any graph, any labelling. *)
Theorem skip_routes_sound : forall (L : Type) (lab : nat -> list L) alive sc fuel n w,
  In w (spelled L lab (limited alive sc) fuel n) -> In w (spelled L lab sc fuel n).
Proof. exact skip_routes_sound_lemma. Qed.
Print Assumptions skip_routes_sound.

(* ---- alt-translation flags ---- *)
Theorem realizable_fl_iff : forall fl x p, realizable_fl fl x p = true <-> RealizableFl fl x p.
Proof. exact realizable_fl_iff_lemma. Qed.
Print Assumptions realizable_fl_iff.

Theorem must_fl_sub_may : forall fl x p, In p (must_set_fl fl x) -> realizable_fl fl x p = true.
Proof. exact must_fl_sub_may_lemma. Qed.
Print Assumptions must_fl_sub_may.

Theorem flags_off_realizable : forall x p, realizable_fl (mkFlags false false) x p = realizable x p.
Proof. exact flags_off_realizable_lemma. Qed.
Print Assumptions flags_off_realizable.

(* ---- fusion transcripts (exonic breakpoints; Model/SpecFusion.v) ---- *)
Theorem fuse_backbone : forall xd bp xa bp',
  in_tx (fuse xd bp xa bp') = firstn (Z.to_nat bp) (in_tx xd) ++ skipn (Z.to_nat bp') (in_tx xa).
Proof. exact fuse_backbone_lemma. Qed.
Print Assumptions fuse_backbone.

Theorem fuse_records : forall xd bp xa bp' v,
  In v (in_vars (fuse xd bp xa bp')) <->
  (In v (in_vars xd) /\ v_e v <= bp) \/
  (exists w, In w (in_vars xa) /\ bp' <= v_s w /\ v = move (bp - bp') w).
Proof. exact fuse_records_lemma. Qed.
Print Assumptions fuse_records.

Theorem realizable_fusion_iff : forall xd bp xa bp' p,
  realizable_fusion xd bp xa bp' p = true <->
  (MayProduct (fuse xd bp xa bp') [] p \/ Realizable (fuse xd bp xa bp') p).
Proof. exact realizable_fusion_iff_lemma. Qed.
Print Assumptions realizable_fusion_iff.

(* ---- fusion transcripts, arbitrary breakpoints: intronic breakpoints retain the intronic piece next to them
   (mid); records inside the retained pieces (mvars); the open last peptide is permitted only when the
   acceptor's 3' end is complete (fusion_tail).  The harness uses THESE deciders; exonic = empty pieces. ---- *)
Theorem fuse_gen_backbone : forall xd bp mid mvars xa bp',
  in_tx (fuse_gen xd bp mid mvars xa bp') =
  firstn (Z.to_nat bp) (in_tx xd) ++ mid ++ skipn (Z.to_nat bp') (in_tx xa).
Proof. exact fuse_gen_backbone_lemma. Qed.
Print Assumptions fuse_gen_backbone.

Theorem fuse_gen_records : forall xd bp mid mvars xa bp' v,
  In v (in_vars (fuse_gen xd bp mid mvars xa bp')) <->
  (In v (in_vars xd) /\ v_e v <= bp) \/
  (exists w, In w mvars /\ v = move bp w) \/
  (exists w, In w (in_vars xa) /\ bp' <= v_s w /\ v = move (bp + zlen mid - bp') w).
Proof. exact fuse_gen_records_lemma. Qed.
Print Assumptions fuse_gen_records.

Theorem fuse_gen_exonic : forall xd bp xa bp', fuse_gen xd bp [] [] xa bp' = fuse xd bp xa bp'.
Proof. exact fuse_gen_exonic_lemma. Qed.
Print Assumptions fuse_gen_exonic.

Theorem realizable_fusion_g_iff : forall xd bp mid mvars xa bp' p,
  realizable_fusion_g xd bp mid mvars xa bp' p = true <->
  let x := fuse_gen xd bp mid mvars xa bp' in
  MayProductT x (fusion_tail x) [] p \/
  exists m, length m = length (in_vars x) /\
    let h := select m (in_vars x) in
    nonempty h = true /\ pairwise false h = true /\ MayProductT x (fusion_tail x) h p.
Proof. exact realizable_fusion_g_iff_lemma. Qed.
Print Assumptions realizable_fusion_g_iff.

(* ---- the retry clause: faithful model (Level F) of call_variant_peptide.caller_reducer, Model/Retry.v ---- *)

(* If every attempt times out, the loop ends in ValueError after at most
   len(max-variants-per-node tuple) + max(0, last element - 1) attempts: retries cannot go on forever. *)
Theorem retry_terminates : forall mvs avs, mvs <> [] ->
  snd (attempts (length mvs + Z.to_nat (Z.max 0 (last mvs 0 - 1))) (rinit mvs avs)) = true.
Proof. exact retry_terminates_lemma. Qed.
Print Assumptions retry_terminates.

(* For non-increasing CLI tuples (a negative value = limit disabled = loosest) the limit pairs tried by
   successive attempts are pointwise non-increasing, for any number of timeouts: retries only tighten. *)
Theorem retry_limits_decrease : forall mvs avs n,
  mvs <> [] -> avs <> [] -> nonincreasing mvs = true -> nonincreasing avs = true ->
  pairs_tighten (fst (attempts n (rinit mvs avs))) = true.
Proof. exact retry_limits_decrease_lemma. Qed.
Print Assumptions retry_limits_decrease.

(* once the tuple is used up each retry lowers max-variants-per-node by exactly one (and needs it > 1) *)
Theorem retry_after_exhaustion : forall x avs av s',
  on_timeout (mkR [x] avs x av) = Retry s' ->
  1 < x /\ r_mv s' = x - 1 /\ r_mvs s' = [x - 1] /\ r_av s' = hdz (next_avs avs).
Proof. exact retry_after_exhaustion_lemma. Qed.
Print Assumptions retry_after_exhaustion.

(* The hypothesis on the tuples is needed: the code walks the tuples in the order given, so with
   --max-variants-per-node 3 7 the first retry LOOSENS the limit.  (Soundness is not affected: every
   limit value only removes routes, skip_routes_sound.) *)
Example retry_follows_tuple_order : fst (attempts 1 (rinit [3; 7] [2])) = [(3, 2); (7, 0)].
Proof. vm_compute. reflexivity. Qed.
Example retry_default_cli : attempts 9 (rinit [7] [2]) =
  ([(7, 2); (6, 0); (5, 0); (4, 0); (3, 0); (2, 0); (1, 0)], true).
Proof. vm_compute. reflexivity. Qed.

(* Non-vacuity (same example as C01): MAKDWR is realizable, the reference peptide MAKGWR is not *)
Definition ex_tx2 : seq := [65;84;71; 71;67;84; 65;65;65; 71;71;84; 84;71;71; 67;71;84; 84;65;65].
Definition ex_input2 : input :=
  mkInput ex_tx2 true 0 false false [] [mkVar 10 11 [65] true]
          [mkAlt [] (CIn [75; 82]) [CNotIn [80]]] None (mkLimits 1 0 3 30) [].
Example realizable_nonvacuous :
  realizable ex_input2 [77;65;75;68;87;82] = true /\ realizable ex_input2 [77;65;75;71;87;82] = false.
Proof. vm_compute. split; reflexivity. Qed.

(* The oracle of this property digests with the rule tables regenerated from expasy_rules.py
   (coq/Gen/Expasy.v); they must be the ExPASy reference rules (same obligation as in Props/C10.v),
   otherwise model and implementation would silently follow a changed rule together. *)
Theorem rules_are_expasy_reference : MoPep.Gen.Expasy.site_rules = MoPep.Model.ExpasyRef.reference_rules.
Proof. exact MoPep.Proofs.ExpasyProofs.rules_match_reference_proof. Qed.
Print Assumptions rules_are_expasy_reference.

(* ---- alternative-splicing records (<DEL>/<INS>/<SUB>; Model/SpecAS.v) ----
   The record is reduced to a linear input on a derived backbone (the pattern of the fusion section). *)
From MoPep Require Import Model.SpecAS Proofs.SpecASProofs.

Theorem as_backbone_eq : forall x r,
  in_tx (as_apply x r) =
  firstn (Z.to_nat (a_s r)) (in_tx x) ++ a_donor r ++ skipn (Z.to_nat (a_e r)) (in_tx x).
Proof. exact as_backbone_lemma. Qed.
Print Assumptions as_backbone_eq.

Theorem as_records_iff : forall x r v,
  In v (in_vars (as_apply x r)) <->
  (In v (in_vars x) /\ v_e v <= a_s r) \/
  (exists w, In w (a_dvars r) /\ 0 <= v_s w /\ v_e w <= zlen (a_donor r) /\ v = move (a_s r) w) \/
  (exists w, In w (in_vars x) /\ a_e r <= v_s w /\ v = move (as_delta r) w).
Proof. exact as_records_lemma. Qed.
Print Assumptions as_records_iff.

(* the decider is the statement: some non-empty, pairwise disjoint, applicable combination s of the supplied
   AS records such that p is a digestion product of the transcript carrying s and a compatible, possibly
   empty, set of the small records that stay applicable (incl. those inside the donor segments) *)
Theorem realizable_as_iff : forall x rs p,
  realizable_as x rs p = true <->
  exists m, length m = length rs /\
    let s := select m rs in
    nonempty s = true /\ as_pairwise s = true /\ forallb (as_ok x) s = true /\
    (MayProduct (as_apply_all x s) [] p \/ Realizable (as_apply_all x s) p).
Proof. exact realizable_as_iff_lemma. Qed.
Print Assumptions realizable_as_iff.

(* the backbone is the sequence that the GVF semantics proved for parseRMATS records in C16
   (Rmats.apply_record) assigns to the record *)
Theorem as_matches_rmats : forall conv t gseq dv r a,
  as_of_gvf conv gseq dv (gvf_of_rmats r) = Some a ->
  MoPep.Model.Rmats.apply_record conv t gseq r = Some (as_backbone t a).
Proof. exact as_matches_rmats_lemma. Qed.
Print Assumptions as_matches_rmats.

(* Non-vacuity: exon skipping on ATG GCT AAA | GGT TGG | CGT TAA: deleting [9,15) gives MAKR, which the
   transcript itself cannot give *)
Example realizable_as_nonvacuous :
  realizable_as (mkInput ex_tx2 true 0 false false [] [] [mkAlt [] (CIn [75; 82]) [CNotIn [80]]] None (mkLimits 1 0 3 30) [])
                [mkAS 9 15 [] []] [77;65;75;82] = true /\
  realizable ex_input2 [77;65;75;82] = false.
Proof. vm_compute. split; reflexivity. Qed.

(* the reduction: with the transcript written A ++ Mid ++ B and D the donor segment, the haplotype sequence of
   the derived linear input (records of the donor moved by |A|, records behind the event moved by |A| + |D|)
   IS the transcript carrying the small records and the AS record as one substitution [|A|, |A|+|Mid|) := D(hd) *)
From MoPep Require Import Model.SpecCirc Proofs.SpecCircProofs.
Theorem as_reduction : forall (A Mid B D : seq) h1 hd hB M,
  chain 0 h1 (zlen A) -> chain 0 hd (zlen D) -> chain 0 hB M ->
  apply_hap (A ++ D ++ B) (h1 ++ map (move (zlen A)) (hd ++ map (move (zlen D)) hB)) =
  apply_hap (A ++ Mid ++ B)
            (h1 ++ map (move (zlen A)) (mkVar 0 (zlen Mid) (apply_hap D hd) true :: map (move (zlen Mid)) hB)).
Proof. exact as_reduction_lemma. Qed.
Print Assumptions as_reduction.

Theorem as_decompose : forall x r, as_ok x r = true ->
  let A := firstn (Z.to_nat (a_s r)) (in_tx x) in
  let Mid := slice (in_tx x) (a_s r) (a_e r) in
  let B := skipn (Z.to_nat (a_e r)) (in_tx x) in
  in_tx x = A ++ Mid ++ B /\ zlen A = a_s r /\ zlen A + zlen Mid = a_e r /\
  in_tx (as_apply x r) = A ++ a_donor r ++ B.
Proof. exact as_decompose_lemma. Qed.
Print Assumptions as_decompose.

(* ---- circRNA records (Model/SpecCirc.v) ---- *)
(* backbone = four turns of the concatenated fragments *)
Theorem circ_backbone : forall l c, in_tx (circ_linear l c) = four (circ_turn (c_gene c) (c_frags c)).
Proof. exact circ_backbone_lemma. Qed.
Print Assumptions circ_backbone.

(* carrying the same records in each of the four copies = four copies of the circle carrying them *)
Theorem circ_copies : forall (t : seq) h, chain 0 h (zlen t) ->
  apply_hap (four t) (copies4 (zlen t) h) = four (apply_hap t h).
Proof. exact circ_copies_lemma. Qed.
Print Assumptions circ_copies.

(* the decider is the statement: the empty set or a non-empty pairwise compatible set h of the records lying
   inside a fragment, carried in every copy; some ATG of the haplotype sequence; p a digestion product of that
   translation (Met-removed form permitted), the open last peptide of a translation that runs off the fourth
   copy excluded *)
Theorem realizable_circ_iff : forall c p,
  realizable_circ c p = true <->
  exists h, (h = [] \/ exists m, length m = length (circ_vars true c) /\ h = select m (circ_vars true c) /\
                               nonempty h = true /\ pairwise false h = true) /\
            CircProduct false c h p.
Proof. exact realizable_circ_iff_lemma. Qed.
Print Assumptions realizable_circ_iff.

(* Non-vacuity: the circle ATGGCTAAAGGTTGGCGT (18 nt, no stop codon: translation goes round and round) gives
   GWRMAK across the back-splice junction (k = 1); the circle ATGGCTGGTTGG has neither a stop codon nor a
   cleavage site: its only "peptide" is the open end after four turns, which is not a product *)
Definition ex_circ : circ_in :=
  mkCircIn [65;84;71; 71;67;84; 65;65;65; 71;71;84; 84;71;71; 67;71;84] [(0, 18)] []
           [mkAlt [] (CIn [75; 82]) [CNotIn [80]]] None (mkLimits 1 0 3 30) [].
Definition ex_circ2 : circ_in :=
  mkCircIn [65;84;71; 71;67;84; 71;71;84; 84;71;71] [(0, 12)] []
           [mkAlt [] (CIn [75; 82]) [CNotIn [80]]] None (mkLimits 1 0 3 30) [].
Example realizable_circ_nonvacuous :
  realizable_circ ex_circ [71;87;82;77;65;75] = true /\
  realizable_circ ex_circ2 [77;65;71;87; 77;65;71;87; 77;65;71;87; 77;65;71;87] = false.
Proof. vm_compute. split; reflexivity. Qed.

(* ---- the abstract algorithm model (Model/AbsGraph.v; DESIGN Appendix B, docs/absgraph.md) ----
   A DAG of labelled nodes; its language = (concatenated labels, concatenated variant ids) over the paths from a
   start node to an accepting node.  These theorems are about the DESIGN of the engine's graph operations; the
   real graphs are tied to them by the stage checks of the stream 'graph' (harness/lib/cvgraph.py), which run
   the same definitions, extracted, on the graphs callVariant dumps. *)
From MoPep Require Import Model.AbsGraph Proofs.AbsGraphProofs.

(* fuel = number of nodes is enough: for a topologically numbered graph every fuel >= N - n gives the same paths *)
Theorem paths_fuel_indep : forall g fin, topo g = true ->
  forall f f' n, (length g - n <= f)%nat -> (length g - n <= f')%nat -> (1 <= f)%nat -> (1 <= f')%nat ->
  paths_fin g fin f n = paths_fin g fin f' n.
Proof. exact paths_fuel_indep_lemma. Qed.
Print Assumptions paths_fuel_indep.

(* drop (generalises skip_routes_sound to labelled languages with accepting nodes): removing edges -- complexity
   limits, truncated / hybrid nodes -- only shrinks the language.  Any graph, fuel, start, accepting set. *)
Theorem drop_lang_subset : forall g alive fin fuel n w,
  In w (lang_fin (drop g alive) fin fuel n) -> In w (lang_fin g fin fuel n).
Proof. exact drop_lang_subset_lemma. Qed.
Print Assumptions drop_lang_subset.

(* merging two nodes with equal label and equal successors keeps the set of strings; with equal variant ids
   (wv = true) it keeps the labelled language *)
Theorem merge_strings : forall g a b wv, twins wv g a b = true -> forall f n s, n <> b ->
  (In s (strings (lang_fin (merge_nodes g a b) (sink (merge_nodes g a b)) f n)) <->
   In s (strings (lang_fin g (sink g) f n))).
Proof. intros g a b wv T f n s H. exact (merge_strings_lemma g a b wv T f n s H). Qed.
Print Assumptions merge_strings.

Theorem merge_lang : forall g a b, twins true g a b = true -> forall f n w, n <> b ->
  (In w (lang_fin (merge_nodes g a b) (sink (merge_nodes g a b)) f n) <-> In w (lang_fin g (sink g) f n)).
Proof. intros g a b T f n w H. exact (merge_lang_lemma g a b true T f n w eq_refl H). Qed.
Print Assumptions merge_lang.

(* collapse: a whole collapsing pass (the design content of "--min-nodes-to-collapse / --naa-to-collapse never
   change the result"): the strings spelled from the root are the same set; with the variant ids compared, so is
   the labelled language.  The engine's PVGNodeCollapser is the first form: it merges nodes that differ in
   their substitution ids, so labels (C03) may change, strings (C01 / C02) may not. *)
Theorem collapse_strings : forall wv g f s,
  In s (strings (lang_fin (collapse wv g) (sink (collapse wv g)) f 0)) <-> In s (strings (lang_fin g (sink g) f 0)).
Proof. intros wv g. exact (collapse_strings_lemma wv (map fst g) g). Qed.
Print Assumptions collapse_strings.

Theorem collapse_lang : forall g f w,
  In w (lang_fin (collapse true g) (sink (collapse true g)) f 0) <-> In w (lang_fin g (sink g) f 0).
Proof. intros g. exact (collapse_lang_lemma (map fst g) g). Qed.
Print Assumptions collapse_lang.

(* join_k: joining 1..k+1 consecutive nodes from every start along a path = the digestion loop of C10 over the
   node boundaries of the path; when the inner boundaries are exactly the cleavage sites of the path string
   (what stage 'cleave' checks on the real graphs) it IS Digest.cleave of the path string, whose products are
   characterised by cleave_spec (Props/C10.v) *)
Theorem joins_eq_cleave_loop : forall wt water lim nf ls,
  joins wt water lim nf true ls = cleave_loop wt water lim (concat ls) nf true (all_bounds ls).
Proof. exact joins_eq_cleave_loop_lemma. Qed.
Print Assumptions joins_eq_cleave_loop.

Theorem join_k : forall wt water lim r exc nf ls, ls <> [] ->
  inner_bounds ls = sites r exc (concat ls) ->
  joins wt water lim nf true ls = cleave wt water lim r exc nf (concat ls).
Proof. exact join_k_lemma. Qed.
Print Assumptions join_k.

(* stage (a), soundness: when the check passes, every word of the graph is the transcript carrying exactly the
   records named on the path -- a pairwise compatible sub-list of the supplied records *)
Theorem tvg_stage_sound : forall tx vs off ws, tvg_unsound tx vs off ws = [] ->
  forall w, In w ws ->
    let h := hap_of_ids vs (snd w) in
    pairwise false h = true /\ fst w = skipn off (apply_hap tx h) /\
    (exists m, length m = length vs /\ h = select m vs).
Proof. exact tvg_sound_lemma. Qed.
Print Assumptions tvg_stage_sound.

(* stage (b): the codon-wise translation of a whole path string, cut at its first stop, is Spec.translate *)
Theorem translate_all_cut : forall s i secs,
  fst (translate s i secs) = cut_at_stop (translate_all_sec s i secs).
Proof. exact translate_all_cut_lemma. Qed.
Print Assumptions translate_all_cut.

(* Non-vacuity: a bubble ATG-(G|A)-CT.  Its language is the reference and the SNV haplotype; the stage check
   accepts it and rejects the same graph with the alternative node spelling C; collapsing a duplicated
   alternative node keeps the language; joining the nodes M|AK|GWR with k = 1 gives the digest of MAKGWR. *)
Definition ex_g : graph :=
  [(0%nat, mkNode [] [] [1%nat]); (1%nat, mkNode [65;84;71] [] [2%nat; 3%nat]); (2%nat, mkNode [71] [] [4%nat]);
   (3%nat, mkNode [65] [0] [4%nat]); (4%nat, mkNode [67;84] [] [])].
Definition ex_vs : list variant := [mkVar 3 4 [65] true].
Example absgraph_nonvacuous :
  topo ex_g = true /\
  lang ex_g 0 = [([65;84;71;71;67;84], []); ([65;84;71;65;67;84], [0])] /\
  tvg_unsound [65;84;71;71;67;84] ex_vs 0 (lang ex_g 0) = [] /\
  tvg_unsound [65;84;71;71;67;84] ex_vs 0 [([65;84;71;67;67;84], [0])] <> [] /\
  joins protein_weights4 water4 (mkLimits 1 0 1 30) true true [[77]; [65;75]; [71;87;82]]
    = [[77]; [77;65;75]; [65;75]; [65;75;71;87;82]; [71;87;82]].
Proof. vm_compute. repeat split; try reflexivity. discriminate. Qed.

(* the enumerated language of a topologically numbered graph is the fuel-free one (paths to a sink) *)
Theorem lang_iff_Lang : forall g n w, topo g = true -> (n < length g)%nat -> (In w (lang g n) <-> Lang g n w).
Proof. exact lang_Lang_lemma. Qed.
Print Assumptions lang_iff_Lang.

(* split_node (cleavage re-partitioning): cutting the label of a node at any offset k -- the fresh node takes the
   rest of the label and the successors -- keeps the labelled language of every start node *)
Theorem split_lang : forall g n k fresh nd,
  find g n = Some nd -> find g fresh = None -> (forall m, ~ In fresh (succs g m)) ->
  forall m w, m <> fresh -> (Lang (split_node g n k fresh) m w <-> Lang g m w).
Proof. exact split_lang_lemma. Qed.
Print Assumptions split_lang.

(* push_right (codon alignment of a bubble): moving the letters of n behind offset k into all its successors
   keeps the labelled language, provided n is no sink, has no self loop and is the only predecessor of its successors *)
Theorem push_lang : forall g n k nd,
  find g n = Some nd -> ~ In n (n_succ nd) -> n_succ nd <> [] ->
  (forall m, In m (n_succ nd) -> only_pred g n m = true) ->
  (forall m, In m (n_succ nd) -> find g m <> None) ->
  forall m w, ~ In m (n_succ nd) -> (Lang (push_right g n k) m w <-> Lang g m w).
Proof. exact push_lang_lemma. Qed.
Print Assumptions push_lang.

(* Non-vacuity of the hypotheses: splitting node 1 (ATG) of ex_g at offset 1 with fresh id 5, and pushing the last
   two letters of node 1 into its successors 2 and 3, are admissible; both keep the enumerated language *)
Example split_push_nonvacuous :
  find ex_g 1 = Some (mkNode [65;84;71] [] [2%nat; 3%nat]) /\ find ex_g 5 = None /\
  forallb (fun e => negb (existsb (Nat.eqb 5) (n_succ (snd e)))) ex_g = true /\
  forallb (only_pred ex_g 1) [2%nat; 3%nat] = true /\
  lang (split_node ex_g 1 1 5) 0 = lang ex_g 0 /\
  lang (push_right ex_g 1 1) 0 = lang ex_g 0.
Proof. vm_compute. repeat split; reflexivity. Qed.

(* ---- bubble creation as an algorithm (Model/AbsGraph.add_bubbles, Proofs/BubbleProofs.v) ----
   add_bubbles ref vs cuts the reference chain at every record boundary and adds, for record j, one sibling node
   carrying v_alt (labelled j) that leaves the chain at v_s and re-joins it at v_e (the design of
   ThreeFrameTVG.create_variant_graph / apply_variant).  MAIN THEOREM of Appendix B: for EVERY reference and EVERY
   well-formed record list sorted by start -- overlapping, nested and abutting records included -- the language of
   that graph is exactly the set of haplotype sequences of the reference semantics:
       { (Spec.apply_hap ref H, indices of H) | H = select m vs, pairwise false H }      (H = [] is the reference)
   Compatibility is Spec's permissive one (compat false: disjoint, abutting allowed = the MAY semantics that
   `realizable` uses); the obliged haplotypes (compat true) are a subset: Props/C01.v add_bubbles_complete. *)
From MoPep Require Import Proofs.BubbleProofs.

Theorem add_bubbles_lang : forall ref vs, bb_wf ref vs = true -> bb_sorted vs = true ->
  forall w, In w (lang (add_bubbles ref vs) 0) <->
    exists m, length m = length vs /\ pairwise false (select m vs) = true /\
              w = (apply_hap ref (select m vs), ids_of_mask 0 m).
Proof. exact add_bubbles_lang_lemma. Qed.
Print Assumptions add_bubbles_lang.

(* the same as an equality of sets with the executable enumeration bubble_spec (what the stream `graph` compares
   the real dumped TVG with, through the extracted functions) *)
Theorem add_bubbles_is_spec : forall ref vs, bb_wf ref vs = true -> bb_sorted vs = true ->
  forall w, In w (lang (add_bubbles ref vs) 0) <-> In w (bubble_spec ref vs).
Proof. exact add_bubbles_spec_lemma. Qed.
Print Assumptions add_bubbles_is_spec.

(* Non-vacuity, with an overlapping pair (records 0 and 1 both start at 2; 1 = deletion [2,5) covers record 2), an
   abutting pair (0 = [2,3) then 2 = insertion at [3,4)) and a free record 3: ten words, none carries 0 and 1 or
   1 and 2 together *)
Definition ex_bb_ref : seq := [65;84;71;71;67;84;65;65].
Definition ex_bb_vs : list variant :=
  [mkVar 2 3 [67] true; mkVar 2 5 [71] true; mkVar 3 4 [65;65] true; mkVar 5 6 [67] true].
Example add_bubbles_overlap_example :
  bb_wf ex_bb_ref ex_bb_vs = true /\ bb_sorted ex_bb_vs = true /\
  map snd (lang (add_bubbles ex_bb_ref ex_bb_vs) 0) = [[]; [3]; [2]; [2;3]; [0]; [0;3]; [0;2]; [0;2;3]; [1]; [1;3]] /\
  forallb (fun w => mem_seq (fst w) (map fst (bubble_spec ex_bb_ref ex_bb_vs))) (lang (add_bubbles ex_bb_ref ex_bb_vs) 0) = true /\
  In ([65;84;71;84;65;65], [1]) (lang (add_bubbles ex_bb_ref ex_bb_vs) 0).
Proof. vm_compute. repeat split; try reflexivity. right. right. right. right. right. right. right. right. now left. Qed.

(* membership without enumeration: walking a graph along a string (AbsGraph.accepts) decides membership in its
   string language; for the bubble graph of a well-formed sorted record list it decides "s is a haplotype sequence".
   The stage checks of fusion / alternative-splicing / circRNA graphs use it on the derived backbones. *)
Theorem accepts_iff_lang : forall g fuel n s,
  accepts g fuel n s = true <-> In s (strings (lang_fin g (sink g) fuel n)).
Proof. exact accepts_spec. Qed.
Print Assumptions accepts_iff_lang.

Theorem accepts_bubbles : forall ref vs s, bb_wf ref vs = true -> bb_sorted vs = true ->
  (accepts (add_bubbles ref vs) (length (add_bubbles ref vs)) 0 s = true <->
   exists m, length m = length vs /\ pairwise false (select m vs) = true /\ s = apply_hap ref (select m vs)).
Proof. exact accepts_bubbles_lemma. Qed.
Print Assumptions accepts_bubbles.
