(* C05 - options and inputs act monotonically on the peptide set.  Level S (DESIGN.md section 2):
   the theorems are about the SPECIFICATION (Model/Spec.v extended by Model/SpecFlags.v), not about the
   graph engine; the engine is tied by the paired-run correspondence harness/props/c05.py only.

   Notation.  with_lim x l : the input x under the limits record l = (k, min mass x 1e4, min length,
   max length); set_k / set_mw / set_minlen / set_maxlen change one component; with_vars x vs : x with
   the record list vs; fl_may_set x fl : the permitted set under the switches fl = (SECT, W2F, coding
   novel ORF), equal to may_set x when all are off (fl_none).

   What is NOT a theorem (and is refuted below): monotonicity of the sets the tool is obliged / allowed
   to REPORT (after subtracting the reference digest and the canonical pool), in k and in SECT / W2F:
   the subtracted sets grow with the relaxation as well.  The property text's "can only add peptides"
   is therefore false of a tool that is correct by design in exactly that corner; the correspondence
   reports it as finding C05-canonical-under-relaxed.

   Not covered by the specification: fusion, alternative splicing, circRNA (hence the restrictive
   switches --noncanonical-transcripts / --backsplicing-only): implementation-level check only. *)
From MoPep Require Gen.Expasy Model.ExpasyRef Proofs.ExpasyProofs.
From MoPep Require Import Model.Base Model.Rule Model.Digest Model.Spec Model.SpecStmt Model.W2F Model.SpecFlags
                          Gen.Bio Gen.Expasy Proofs.MonoProofs.
Open Scope Z_scope.

(* The anchor mechanism "limits are applied as filters on an enumeration that does not otherwise
   depend on them": the products of a translation are the candidates (every joined piece with at most
   k missed cleavages, and Met-removed forms) filtered by keep, and the candidates depend on the limits
   record through k only. *)
Theorem enumeration_independent_of_limits : forall x l l' nf tail tr,
  (products (with_lim x l) nf tail tr =
     filter (keep protein_weights4 water4 l) (cand_products (with_lim x l) nf tail tr)) /\
  (lim_k l = lim_k l' -> cand_products (with_lim x l) nf tail tr = cand_products (with_lim x l') nf tail tr).
Proof. exact enumeration_independent_of_limits_lemma. Qed.
Print Assumptions enumeration_independent_of_limits.

(* all four limits at once: a configuration at most as permissive in every component permits a subset *)
Theorem spec_mono_limits : forall x l l' p, lim_le l l' ->
  In p (may_set (with_lim x l)) -> In p (may_set (with_lim x l')).
Proof. exact spec_mono_limits_lemma. Qed.
Print Assumptions spec_mono_limits.

(* miscleavages: k <= k' only adds, and every derivation (haplotype, start, Sec reading, start boundary a,
   end boundary b) of an added peptide ends beyond the first k+1 boundaries after its start: it uses more
   than k missed cleavages *)
Theorem spec_mono_misc : forall x l k k', k <= k' ->
  (forall p, In p (may_set (with_lim x (set_k l k))) -> In p (may_set (with_lim x (set_k l k')))) /\
  (forall p, In p (may_set (with_lim x (set_k l k'))) -> ~ In p (may_set (with_lim x (set_k l k))) ->
     forall h st secs pre a rest b,
       In h (haplotypes false (in_vars x)) ->
       In st (may_starts x h (apply_hap (in_tx x) h)) -> In secs (may_secs x h) ->
       let tr := translate_from (apply_hap (in_tx x) h) st secs in
       bounds (in_rule x) (in_exc x) true (fst tr) = pre ++ a :: rest ->
       In b (firstn (Z.to_nat (k' + 1)) rest) ->
       (p = piece (fst tr) a b \/
        (pre = [] /\ starts_with_M (piece (fst tr) a b) = true /\ p = tl (piece (fst tr) a b))) ->
       ~ In b (firstn (Z.to_nat (k + 1)) rest)).
Proof. exact spec_mono_misc_lemma. Qed.
Print Assumptions spec_mono_misc.

(* the obliged set under a more permissive configuration (any pool pl'): still obliged, or it has become a
   product of the unmodified transcript, or a member of the pool *)
Theorem spec_mono_must : forall x l l' pl pl' p, lim_le l l' ->
  In p (must_set (with_lim_pool x l pl)) ->
  In p (must_set (with_lim_pool x l' pl')) \/ In p (ref_products (with_lim x l')) \/ In p pl'.
Proof. exact spec_mono_must_lemma. Qed.
Print Assumptions spec_mono_must.

(* ... and plain monotonicity of the obliged set in k is FALSE (witness w4: RPAAK is a variant peptide
   at k = 0 and the Met-removed form of the reference product MRPAAK at k = 1); replayed on the real
   callVariant as corpus/C05/finding_canonical_k.json *)
Theorem spec_mono_misc_must_refuted :
  exists l k k' p, k <= k' /\
    In p (must_set (w4 (set_k l k))) /\ ~ In p (must_set (w4 (set_k l k'))) /\
    In p (ref_products (w4 (set_k l k'))).
Proof. exact spec_mono_misc_must_refuted_lemma. Qed.
Print Assumptions spec_mono_misc_must_refuted.

(* minimum length: n' <= n only adds; whatever is added is shorter than n *)
Theorem spec_mono_minlen : forall x l n n', n' <= n ->
  (forall p, In p (may_set (with_lim x (set_minlen l n))) -> In p (may_set (with_lim x (set_minlen l n')))) /\
  (forall p, In p (may_set (with_lim x (set_minlen l n'))) -> ~ In p (may_set (with_lim x (set_minlen l n))) ->
             Z.of_nat (length p) < n).
Proof. exact spec_mono_minlen_lemma. Qed.
Print Assumptions spec_mono_minlen.

(* maximum length: n <= n' only adds; whatever is added is longer than n *)
Theorem spec_mono_maxlen : forall x l n n', n <= n' ->
  (forall p, In p (may_set (with_lim x (set_maxlen l n))) -> In p (may_set (with_lim x (set_maxlen l n')))) /\
  (forall p, In p (may_set (with_lim x (set_maxlen l n'))) -> ~ In p (may_set (with_lim x (set_maxlen l n))) ->
             n < Z.of_nat (length p)).
Proof. exact spec_mono_maxlen_lemma. Qed.
Print Assumptions spec_mono_maxlen.

(* minimum mass (exact, x 1e4): m' <= m only adds; whatever is added has mass not above m *)
Theorem spec_mono_mass : forall x l m m', m' <= m ->
  (forall p, In p (may_set (with_lim x (set_mw l m))) -> In p (may_set (with_lim x (set_mw l m')))) /\
  (forall p, In p (may_set (with_lim x (set_mw l m'))) -> ~ In p (may_set (with_lim x (set_mw l m))) ->
             mass4 protein_weights4 water4 p <= m).
Proof. exact spec_mono_mass_lemma. Qed.
Print Assumptions spec_mono_mass.

(* record sets: vs = the sub-list of vs' selected by the mask m0 (order preserved).  Haplotypes and
   permitted peptides only grow; every witness haplotype (mask m over vs') of an added peptide selects a
   position outside m0, i.e. uses an added record *)
Theorem spec_mono_variants : forall x vs' m0, length m0 = length vs' ->
  let vs := select m0 vs' in
  (forall strict h, In h (haplotypes strict vs) -> In h (haplotypes strict vs')) /\
  (forall p, In p (may_set (with_vars x vs)) -> In p (may_set (with_vars x vs'))) /\
  (forall p, In p (may_set (with_vars x vs')) -> ~ In p (may_set (with_vars x vs)) ->
     forall m, length m = length vs' -> nonempty (select m vs') = true -> pairwise false (select m vs') = true ->
               In p (may_products x (select m vs')) ->
               exists i, nth i m false = true /\ nth i m0 false = false).
Proof. exact spec_mono_variants_lemma. Qed.
Print Assumptions spec_mono_variants.

(* the obliged set is monotone in the record set too (nothing that is subtracted depends on it) *)
Theorem spec_mono_variants_must : forall x vs vs' p, sub_records vs vs' ->
  In p (must_set (with_vars x vs)) -> In p (must_set (with_vars x vs')).
Proof. exact must_set_mono_vars. Qed.
Print Assumptions spec_mono_variants_must.

(* the flag-extended specification with every switch off is Model/Spec.v's may_set *)
Theorem fl_none : forall x p, In p (fl_may_set x no_flags) <-> In p (may_set x).
Proof. exact fl_none_lemma. Qed.
Print Assumptions fl_none.

(* switches: pointwise more switches permit a superset *)
Theorem spec_mono_flags : forall x fl fl' p, flags_le fl fl' ->
  In p (fl_may_set x fl) -> In p (fl_may_set x fl').
Proof. exact spec_mono_flags_lemma. Qed.
Print Assumptions spec_mono_flags.

(* --selenocysteine-termination: every added peptide is a prefix q[:i] of a candidate q with q[i] = U
   (or, with W2F on as well, a W>F image of such a prefix): it carries a SECT event *)
Theorem spec_mono_sect : forall x fl p, f_sect fl = false ->
  let fl' := mkFlags true (f_w2f fl) (f_orf fl) in
  (forall q, In q (fl_may_set x fl) -> In q (fl_may_set x fl')) /\
  (In p (fl_may_set x fl') -> ~ In p (fl_may_set x fl) ->
   exists h st secs q s i,
     In h (haplotypes false (in_vars x)) /\
     In st (fl_starts x fl h (apply_hap (in_tx x) h)) /\ In secs (may_secs x h) /\
     In q (cand_products x false true (translate_from (apply_hap (in_tx x) h) st secs)) /\
     nth_error q i = Some U_code /\ s = firstn i q /\
     (p = s \/ (f_w2f fl = true /\ In p (w2f_images s)))).
Proof. exact spec_mono_sect_lemma. Qed.
Print Assumptions spec_mono_sect.

(* --w2f-reassignment: every added peptide is the image of a candidate or SECT form under a non-empty
   set S of W -> F substitutions: it carries W2F events *)
Theorem spec_mono_w2f : forall x fl p, f_w2f fl = false ->
  let fl' := mkFlags (f_sect fl) true (f_orf fl) in
  (forall q, In q (fl_may_set x fl) -> In q (fl_may_set x fl')) /\
  (In p (fl_may_set x fl') -> ~ In p (fl_may_set x fl) ->
   exists h st secs q S,
     In h (haplotypes false (in_vars x)) /\
     In st (fl_starts x fl h (apply_hap (in_tx x) h)) /\ In secs (may_secs x h) /\
     In q (fl_base fl (cand_products x false true (translate_from (apply_hap (in_tx x) h) st secs))) /\
     S <> [] /\ sublist S (w_positions q) /\ p = apply_w2f S q).
Proof. exact spec_mono_w2f_lemma. Qed.
Print Assumptions spec_mono_w2f.

(* --coding-novel-orf: every added peptide comes from a coding transcript, from a start that is an ATG of
   the haplotype sequence and is not the annotated start: it carries a novel ORF *)
Theorem spec_mono_novel_orf : forall x fl p, f_orf fl = false ->
  let fl' := mkFlags (f_sect fl) (f_w2f fl) true in
  (forall q, In q (fl_may_set x fl) -> In q (fl_may_set x fl')) /\
  (In p (fl_may_set x fl') -> ~ In p (fl_may_set x fl) ->
   in_coding x = true /\
   exists h st secs,
     In h (haplotypes false (in_vars x)) /\
     In st (atg_positions (apply_hap (in_tx x) h) 0) /\ ~ In st (may_starts x h (apply_hap (in_tx x) h)) /\
     In secs (may_secs x h) /\
     In p (fl_products x fl false true (translate_from (apply_hap (in_tx x) h) st secs))).
Proof. exact spec_mono_novel_orf_lemma. Qed.
Print Assumptions spec_mono_novel_orf.

(* the set the tool may REPORT under the switches (permitted minus denylist minus pool): a reported
   peptide is, with more switches on, still reported or has become a form of the unmodified transcript *)
Theorem spec_flags_report : forall x fl fl' p, flags_le fl fl' ->
  In p (fl_report_set x fl) -> In p (fl_report_set x fl') \/ In p (fl_ref_products x fl').
Proof. exact spec_flags_report_lemma. Qed.
Print Assumptions spec_flags_report.

(* ... and plain monotonicity of the reported set in --selenocysteine-termination is FALSE (witness w2:
   GCUH is a variant peptide with the switch off and the SECT form of the reference peptide GCUHUK with
   it on); the same mechanism on the real callVariant: corpus/C05/finding_canonical_sect.json *)
Theorem spec_sect_report_refuted :
  exists x fl fl' p, flags_le fl fl' /\ In p (fl_report_set x fl) /\ ~ In p (fl_report_set x fl').
Proof. exact spec_sect_report_refuted_lemma. Qed.
Print Assumptions spec_sect_report_refuted.

(* Non-vacuity (proved by computation in Proofs/MonoProofs.v on concrete transcripts): each relaxation
   really adds a peptide, so the hypotheses "p in the relaxed set, not in the strict set" of the
   attribution clauses are satisfiable. *)
Example c05_misc_adds := ex_misc_adds.            (* k 0 -> 1 adds MAKDWR *)
Example c05_minlen_adds := ex_minlen_adds.        (* min length 4 -> 3 adds DWR *)
Example c05_maxlen_adds := ex_maxlen_adds.        (* max length 5 -> 6 adds MAKDWR *)
Example c05_mass_adds := ex_mass_adds.            (* min mass 500 -> 400 Da adds DWR *)
Example c05_variants_adds := ex_variants_adds.    (* a second SNV adds DLR *)
Example c05_sect_adds := ex_sect_adds.            (* SECT adds GG, the prefix of GGUHUK before its first U *)
Example c05_w2f_adds := ex_w2f_adds.              (* W2F adds DFR, the image of DWR *)
Example c05_novel_orf_adds := ex_novel_orf_adds.  (* an out-of-frame ATG of a coding transcript adds DWR *)

(* The oracle of this property digests with the rule tables regenerated from expasy_rules.py
   (coq/Gen/Expasy.v); they must be the ExPASy reference rules (same obligation as in Props/C10.v),
   otherwise model and implementation would silently follow a changed rule together. *)
Theorem rules_are_expasy_reference : MoPep.Gen.Expasy.site_rules = MoPep.Model.ExpasyRef.reference_rules.
Proof. exact MoPep.Proofs.ExpasyProofs.rules_match_reference_proof. Qed.
Print Assumptions rules_are_expasy_reference.

(* ------------------------------------------------------------------------------------------------------------
   --max-adjacent-as-mnv: what find_mnvs_from_adjacent_variants / create_mnv_from_adjacent
   (moPepGen/seqvar/VariantRecord.py) emit.  Model: Model/Mnv.v over (start, end, ref, alt, type, id) records.
   The two loops that do the work are translated from the source on every run (coq/Gen/Py_mnv.v, docs/py2coq.md
   target 27) and proved equal to the model; the level dictionary around them (keyed by the loop index k) is not in
   the translated subset: the model keeps the levels as a function of k (Mnv.level, flat_map of Mnv.extend). *)
From MoPep Require Gen.Py_mnv.
From MoPep Require Import Model.PyRt Model.Mnv Proofs.MnvProofs Proofs.Py2CoqMnvProofs.

(* .. and the dictionary literal compatible_type_map, transcribed in Mnv.compat_class, still has the pinned text *)
Theorem code_mnv_translated :
  Py_mnv.py_create_mnv_untranslated = false /\ Py_mnv.py_mnv_scan_untranslated = false /\
  Py_mnv.py_mnv_type_map_pinned_untranslated = false.
Proof. vm_compute. repeat split; reflexivity. Qed.
Print Assumptions code_mnv_translated.

(* create_mnv_from_adjacent (accumulation loop + end of the last member): start of the first member, end of the
   last, ref / alt / ids concatenated in order; None = the IndexError of the empty list *)
Theorem code_create_mnv_is_model : forall variants, Py_mnv.py_create_mnv variants = create_mnv variants.
Proof. exact code_create_mnv_is_model_l. Qed.
Print Assumptions code_create_mnv_is_model.

(* the scan `for j in range(i_t + 1, len(variants))` of one comb *)
Theorem code_mnv_scan_is_model : forall variants type0 comb i_t v_t, nthZ variants i_t = Some v_t ->
  Py_mnv.py_mnv_scan variants type0 comb i_t
  = Some (scan type0 (m_end v_t) comb (i_t + 1) (skipn (Z.to_nat (i_t + 1)) variants)).
Proof. exact code_mnv_scan_is_model_l. Qed.
Print Assumptions code_mnv_scan_is_model.

(* .. under the guard of the enclosing loop (i_t = comb[-1] is not the last index) it is Mnv.extend *)
Theorem code_mnv_extend_is_model : forall variants type0 comb, 0 <= last comb 0 < zlen variants - 1 ->
  Py_mnv.py_mnv_scan variants type0 comb (last comb 0) = Some (extend variants type0 comb).
Proof. exact code_mnv_extend_is_model_l. Qed.
Print Assumptions code_mnv_extend_is_model.

(* WHAT IS EMITTED.  For record i the code emits exactly the chains of 2 .. K records starting at i (chainP: start
   with [i], repeatedly append a later record j that is a `step` after the current last one), of the class of
   record i; nothing for a record of another type, nothing at all for K < 2.  All lengths, not only the longest. *)
Theorem mnv_chains_characterised : forall vs K i c,
  In c (chains_from vs K i) <->
  exists v0 c0, nthZ vs i = Some v0 /\ compat_class (m_ty v0) = Some c0 /\ chainP vs c0 i c /\
                2 <= Z.of_nat (length c) <= K.
Proof. exact chains_spec. Qed.
Print Assumptions mnv_chains_characterised.

(* a chain read as a list: it starts at i and consecutive members are steps (later index, class of record i, starts
   exactly where the predecessor ends, no record of a known type in between starts after that end) -- and conversely *)
Theorem mnv_chain_shape : forall vs c0 i c,
  chainP vs c0 i c -> hd 0 c = i /\ c <> [] /\ consec (step vs c0) c.
Proof. exact chain_shape. Qed.
Print Assumptions mnv_chain_shape.

Theorem mnv_chain_of_shape : forall vs c0 c, c <> [] -> consec (step vs c0) c -> chainP vs c0 (hd 0 c) c.
Proof. exact chain_of_shape. Qed.
Print Assumptions mnv_chain_of_shape.

(* on records sorted by start (callVariant sorts them) the `break` of the scan never cuts a chain short *)
Theorem mnv_step_of_sorted : forall vs c0 a b va vb,
  sorted_by_start vs -> a < b -> nthZ vs a = Some va -> nthZ vs b = Some vb ->
  compat_class (m_ty vb) = Some c0 -> m_start vb = m_end va -> step vs c0 a b.
Proof. exact step_of_sorted. Qed.
Print Assumptions mnv_step_of_sorted.

(* THE MERGED RECORD of an emitted chain exists (no index out of range), has one member per index, and -- in the
   terms of Model/Spec.v, whose adjacency convention admits abutting records in one haplotype only as "merged
   adjacent variants" -- denotes the joint application of its members: same sequence from Spec.build *)
Theorem mnv_emitted_denotes_chain : forall vs K i c, In c (chains_from vs K i) ->
  exists m, create_mnv (pick vs c) = Some m /\ length (pick vs c) = length c /\
            forall t pos h, build t pos (mnv_to_spec m :: h) = build t pos (map to_spec (pick vs c) ++ h).
Proof. exact emitted_mnv_denotes_chain. Qed.
Print Assumptions mnv_emitted_denotes_chain.

(* its reference allele spans its location when the members' do *)
Theorem mnv_merged_ref_spans : forall (l : list mrec) v,
  consec (fun a b => m_start b = m_end a) (v :: l) ->
  Forall (fun r => zlen (m_ref r) = m_end r - m_start r) (v :: l) ->
  zlen (flat_map m_ref (v :: l)) = m_end (last (v :: l) v) - m_start v.
Proof. exact merged_ref_spans. Qed.
Print Assumptions mnv_merged_ref_spans.

(* three abutting SNVs with --max-adjacent-as-mnv 3: pair 0-1, triple 0-1-2 AND pair 1-2;  with 2, pairs only, and
   an INDEL sharing the boundary is stepped over (other class), not a barrier *)
Theorem mnv_not_only_maximal :
  all_chains [snv 10 65 67; snv 11 67 71; snv 12 71 84] 3 = [[0; 1]; [0; 1; 2]; [1; 2]] /\
  map (fun m => (n_start m, n_end m, n_ref m, n_alt m)) (find_mnvs [snv 10 65 67; snv 11 67 71; snv 12 71 84] 3)
  = [(10, 12, [65; 67], [67; 71]); (10, 13, [65; 67; 71], [67; 71; 84]); (11, 13, [67; 71], [71; 84])].
Proof. exact not_only_maximal. Qed.
Print Assumptions mnv_not_only_maximal.

Theorem mnv_pairs_only_and_class :
  all_chains [snv 10 65 67; mkM 11 12 [67] [67; 84] s_INDEL []; snv 11 67 71; snv 12 71 84] 2 = [[0; 2]; [2; 3]].
Proof. exact pairs_only_and_class. Qed.
Print Assumptions mnv_pairs_only_and_class.
