(* C08 - callNovelORF equals the definitional ORF digest.  Property theorems only. *)
From Coq Require Import ZArith List Bool Lia Sorted.
From MoPep Require Gen.Expasy Model.ExpasyRef Proofs.ExpasyProofs.
From MoPep Require Import Model.Base Model.Rule Model.Digest Model.W2F Model.NovelOrf
                          Gen.NovelOrfCfg Gen.Bio
                          Proofs.W2FProofs Proofs.CleaveSpec Proofs.NovelOrfProofs Proofs.NovelOrfCfgProofs.
Import ListNotations.
Open Scope Z_scope.

(* (F) a transcript is processed by the repaired loop <-> the stated rule:
   non-coding passing the biotype and length filters; coding only with --coding-novel-orf *)
Theorem select_iff : forall o t, select_tx o t = true <-> SelectRule o t.
Proof. exact NovelOrfProofs.select_iff. Qed.
Print Assumptions select_iff.

(* (F) the loop as it was written (`pass` for `continue`, defect D5, fixed in /repo af7e433) violates the rule *)
Theorem select_iff_refuted : exists o t, select_tx_unfixed o t = true /\ ~ SelectRule o t.
Proof. exact NovelOrfProofs.select_iff_refuted. Qed.
Print Assumptions select_iff_refuted.

(* (F + translator) the loop as the source reads NOW (shape of the coding branch regenerated from
   call_novel_orf.py on every run) selects by the rule; breaks if `continue` becomes `pass` again *)
Theorem code_selects_by_rule : forall o t, select_tx_gen coding_branch_skips o t = true <-> SelectRule o t.
Proof. exact code_selects_by_rule_l. Qed.
Print Assumptions code_selects_by_rule.

Theorem cfg_wellformed : cfg_ok = true /\ coding_branch_known = true /\ 0 <= default_min_tx_length.
Proof. exact cfg_wellformed_l. Qed.
Print Assumptions cfg_wellformed.

(* (F) W>F images = exactly the images under the non-empty subsets of the W positions *)
Theorem w2f_enum : forall p q,
  In q (w2f_images p) <-> exists S, S <> [] /\ sublist S (w_positions p) /\ q = apply_w2f S p.
Proof. exact W2FProofs.w2f_enum. Qed.
Print Assumptions w2f_enum.

(* (F) get_orf_sequences: one entry per ATG of the three frames in ascending (= id) order; each entry's
   sequence is the translation from its start to the next stop or the transcript end and its
   coordinates translate to exactly the listed sequence *)
Theorem orf_listing_exact : forall tbl dna,
  map oe_start (orf_listing tbl dna) = map Z.of_nat (atg_positions dna) /\
  StronglySorted lt (atg_positions dna) /\
  (forall p, In p (atg_positions dna) <-> is_atg (skipn p dna) = true) /\
  (forall e, In e (orf_listing tbl dna) -> exists p, In p (atg_positions dna) /\ EntryOk tbl dna p e).
Proof. exact NovelOrfProofs.orf_listing_exact. Qed.
Print Assumptions orf_listing_exact.

(* (S) membership in the computed obliged set <-> the property's existential statement (digestion products include the
   Met-removed form of products starting at the ORF start - the tool's rule, adopted as a convention):
   q is not canonical and there are a selected transcript, an ATG position p and boundaries i < j <= i+k+1
   of the digest of the translation from p (Product) such that q is that product, or a W>F image of it
   within the limits *)
Theorem novel_spec_iff : forall wt water lim r exc tbl o w2f pool txs q,
  In q (novel_must wt water lim r exc tbl w2f pool (selected true o txs)) <->
  MustReport wt water lim r exc tbl o w2f pool txs q.
Proof. exact NovelOrfProofs.novel_spec_iff. Qed.
Print Assumptions novel_spec_iff.

(* (S) the same for the permitted set (Met-removed forms, either context reading, images of every product) *)
Theorem novel_may_iff : forall wt water lim r exc tbl o w2f pool txs q,
  In q (novel_may wt water lim r exc tbl w2f pool (selected true o txs)) <->
  MayReport wt water lim r exc tbl o w2f pool txs q.
Proof. exact NovelOrfProofs.novel_may_iff. Qed.
Print Assumptions novel_may_iff.

(* (S) MUST is inside MAY *)
Theorem must_sub_may : forall wt water lim r exc tbl o w2f pool txs q,
  In q (novel_must wt water lim r exc tbl w2f pool (selected true o txs)) ->
  In q (novel_may wt water lim r exc tbl w2f pool (selected true o txs)).
Proof. exact NovelOrfProofs.must_sub_may. Qed.
Print Assumptions must_sub_may.

(* (S) the digest inside the specification is the declarative one: product = span between the i-th and
   the j-th boundary, at most k boundaries in between, Met-removed form only at the first boundary *)
Theorem cleave_spec : forall wt water lim r exc nf s q,
  In q (cleave wt water lim r exc nf s) <-> Product wt water lim r exc nf s q.
Proof. exact CleaveSpec.cleave_spec. Qed.
Print Assumptions cleave_spec.

(* The oracle of this property digests with the rule tables regenerated from expasy_rules.py
   (coq/Gen/Expasy.v); they must be the ExPASy reference rules (same obligation as in Props/C10.v),
   otherwise model and implementation would silently follow a changed rule together. *)
Theorem rules_are_expasy_reference : MoPep.Gen.Expasy.site_rules = MoPep.Model.ExpasyRef.reference_rules.
Proof. exact MoPep.Proofs.ExpasyProofs.rules_match_reference_proof. Qed.
Print Assumptions rules_are_expasy_reference.
