(* C01 - completeness of callVariant.  Level S (DESIGN.md section 2): the theorems are about the
   SPECIFICATION Model/Spec.v (reference semantics of "a transcript carrying a compatible combination
   of the supplied variants"), not about the graph engine; the engine is tied to must_set by the
   correspondence harness/props/c01.py only.
   Record kinds covered: SNV / MNV / INDEL on a linear transcript. *)
From MoPep Require Gen.Expasy Model.ExpasyRef Proofs.ExpasyProofs.
From MoPep Require Import Model.Base Model.Rule Model.Digest Model.Spec Model.SpecStmt Gen.Bio Gen.Expasy
                          Proofs.SpecProofs Model.W2F Model.SpecAlt Model.SpecAltStmt Proofs.SpecAltProofs.
Open Scope Z_scope.

(* The oracle's obliged set is exactly the property's statement (MustReport, Model/SpecStmt.v):
   p is obliged  <->  there are a non-empty, pairwise compatible (non-abutting) subset h of the supplied
   records (all of them records the statement covers), a permitted start, and boundaries with at most
   k missed cleavages such that p is that digestion product (or its Met-removed form) of the
   translation of the transcript carrying h, within the limits, AND p is not a product of the
   unmodified transcript AND p is not in the canonical pool. *)
Theorem must_sound_complete : forall x p, In p (must_set x) <-> MustReport x p.
Proof. exact must_sound_complete_lemma. Qed.
Print Assumptions must_sound_complete.

(* Haplotype enumeration: every pairwise-compatible non-empty subset of the records (as a selection
   mask) is listed, nothing else is, and no subset is listed twice -- for both notions of
   compatibility (strict = MUST, non-strict = MAY). *)
Theorem hap_enum_complete : forall strict vs,
  (forall m, In m (hap_masks strict vs) <->
             length m = length vs /\ nonempty (select m vs) = true /\ pairwise strict (select m vs) = true)
  /\ NoDup (hap_masks strict vs).
Proof. exact hap_enum_complete_lemma. Qed.
Print Assumptions hap_enum_complete.

(* the products of one translation are exactly the declarative digest (reuses C10's cleave_loop_spec) *)
Theorem products_are_declarative_digest : forall x nf tail tr p,
  In p (products x nf tail tr) <-> Product x nf tail tr p.
Proof. exact products_spec. Qed.
Print Assumptions products_are_declarative_digest.

(* ---- alt-translation flags (--selenocysteine-termination, --w2f-reassignment; Model/SpecAlt.v) ----
   p is obliged under the flags  <->  some obliged haplotype has p among its products or -- flag on -- among
   the Sec-terminated forms of its products (limits lifted for the untruncated product) or -- flag on -- among
   the W>F images of either (AltForm, Model/SpecAltStmt.v), and p is no such form of a product of the
   unmodified transcript, and p is not in the canonical pool. *)
Theorem must_fl_sound_complete : forall fl x p, In p (must_set_fl fl x) <-> MustReportFl fl x p.
Proof. exact must_fl_sound_complete_lemma. Qed.
Print Assumptions must_fl_sound_complete.

(* with both flags off the flagged oracle is the plain one *)
Theorem flags_off_must : forall x p, In p (must_set_fl (mkFlags false false) x) <-> In p (must_set x).
Proof. exact flags_off_must_lemma. Qed.
Print Assumptions flags_off_must.

(* Non-vacuity: a concrete transcript ATG GCT AAA GGT TGG CGT TAA with the SNV  GGT -> GAT  at
   position 10 obliges the peptide MAKDWR (trypsin, k = 1, no exception). *)
Definition ex_tx : seq := [65;84;71; 71;67;84; 65;65;65; 71;71;84; 84;71;71; 67;71;84; 84;65;65].
Definition ex_trypsin : rule :=
  match lookup [116; 114; 121; 112; 115; 105; 110] site_rules with Some r => r | None => [] end.
Definition ex_input : input :=
  mkInput ex_tx true 0 false false [] [mkVar 10 11 [65] true] ex_trypsin None (mkLimits 1 0 3 30) [].
Example must_set_nonvacuous : In [77;65;75;68;87;82] (must_set ex_input).
Proof. vm_compute. tauto. Qed.

(* The oracle of this property digests with the rule tables regenerated from expasy_rules.py
   (coq/Gen/Expasy.v); they must be the ExPASy reference rules (same obligation as in Props/C10.v),
   otherwise model and implementation would silently follow a changed rule together. *)
Theorem rules_are_expasy_reference : MoPep.Gen.Expasy.site_rules = MoPep.Model.ExpasyRef.reference_rules.
Proof. exact MoPep.Proofs.ExpasyProofs.rules_match_reference_proof. Qed.
Print Assumptions rules_are_expasy_reference.

(* ---- alternative-splicing and circRNA records (Model/SpecAS.v, Model/SpecCirc.v) ----
   The obliged sets are what their definitions say, stated with explicit existentials (the engine is tied to them
   by correspondence only, as for fusion). *)
From MoPep Require Import Model.SpecFusion Model.SpecAS Model.SpecCirc Proofs.SpecASProofs Proofs.SpecCircProofs.

(* p is obliged for the AS records rs  <->  some supplied record r that the statement covers (as_must_ok) yields
   p as a product of the derived linear input (strict neighbourhood) carrying the empty or an obliged set of
   small records, and p is neither a product of the unmodified transcript nor in the pool *)
Theorem must_as_set_iff : forall x rs p,
  In p (must_as_set x rs) <->
  (exists r, In r rs /\ as_must_ok x r = true /\
     let y := as_apply_gen false x r in
     (In p (must_products y []) \/ exists h, In h (must_haps y) /\ In p (must_products y h))) /\
  ~ RefProduct x p /\ ~ In p (in_pool x).
Proof. exact must_as_set_iff_lemma. Qed.
Print Assumptions must_as_set_iff.

(* p is obliged for the circRNA c of the transcript x  <->  the empty set or some obliged set h of records strictly
   inside a fragment, carried in every copy, an ATG in the FIRST turn of the haplotype sequence, p a closed
   digestion product of that translation; p not a product of the linear transcript with or without its records,
   not in the pool *)
Theorem must_circ_set_iff : forall c x p,
  In p (must_circ_set c x) <->
  (exists h, (h = [] \/ (In h (haplotypes true (circ_vars false c)) /\ circ_must_hap h = true)) /\
             In p (circ_must_products c h)) /\
  ~ In p (ref_products x) /\ ~ In p (may_set x) /\ ~ In p (c_pool c).
Proof. exact must_circ_set_iff_lemma. Qed.
Print Assumptions must_circ_set_iff.

(* ---- graph stages (Model/AbsGraph.v; docs/absgraph.md): completeness side ---- *)
From MoPep Require Import Model.AbsGraph Proofs.AbsGraphProofs Proofs.DigestProofs.

(* stage (a), completeness of bubbles: when the check passes, every obliged haplotype (must_haps, the haplotypes
   must_set ranges over) is spelled by a path of the transcript variant graph *)
Theorem tvg_stage_complete : forall x off ws, tvg_missing x off ws = [] ->
  forall h, In h (must_haps x) -> In (skipn off (apply_hap (in_tx x) h)) (strings ws).
Proof. exact tvg_complete_lemma. Qed.
Print Assumptions tvg_stage_complete.

(* along a path whose node boundaries are exactly the cleavage sites, the peptides obtained by joining 1..k+1
   consecutive nodes are exactly the digestion products (C10's declarative Digest_product) of the path string:
   nothing the statement obliges can be lost by the calling step *)
Theorem join_k_complete : forall wt water lim r exc nf ls p, ls <> [] ->
  inner_bounds ls = sites r exc (concat ls) ->
  (In p (joins wt water lim nf true ls) <-> Digest_product wt water lim r exc nf (concat ls) p).
Proof. exact join_k_spec_lemma. Qed.
Print Assumptions join_k_complete.

(* ---- bubble creation, completeness half (Model/AbsGraph.add_bubbles; the full language theorem is
   add_bubbles_lang in Props/C02.v): the reference and every haplotype of Spec.haplotypes -- strict (the obliged
   ones) or permissive -- is spelled by a path of the bubble graph, labelled with exactly its records *)
From MoPep Require Import Proofs.BubbleProofs.
Theorem add_bubbles_complete : forall ref vs, bb_wf ref vs = true -> bb_sorted vs = true ->
  In (ref, []) (lang (add_bubbles ref vs) 0) /\
  forall strict h, In h (haplotypes strict vs) ->
    exists m, h = select m vs /\ In (apply_hap ref h, ids_of_mask 0 m) (lang (add_bubbles ref vs) 0).
Proof. exact add_bubbles_complete_lemma. Qed.
Print Assumptions add_bubbles_complete.
