(* C10 - canonical peptide pool = exact in-silico digest.  Property theorems only. *)
From Coq Require Import ZArith List Bool.
From MoPep Require Import Model.Base Model.Rule Model.Digest Model.ExpasyRef Gen.Expasy Gen.Bio.
From MoPep Require Import Proofs.DigestProofs Proofs.ExpasyProofs.
Import ListNotations.

(* --- obligations over the tables regenerated from /repo on every run --- *)

(* every regular expression of EXPASY_RULES lies in the translated fragment *)
Theorem rules_wellformed : forallb (fun nr => rule_ok (snd nr)) site_rules = true.
Proof. exact rules_wellformed_proof. Qed.
Print Assumptions rules_wellformed.

(* the code's site rules are exactly the ExPASy reference rules *)
Theorem rules_match_reference : site_rules = reference_rules.
Proof. exact rules_match_reference_proof. Qed.
Print Assumptions rules_match_reference.

(* EXPASY_RULES2 (range patterns) are, alternative by alternative, the flattening
   look-behind ++ centre ++ look-ahead of EXPASY_RULES: "range patterns pair with sites" *)
Theorem range_rules_flatten : range_rules = map (fun nr => (fst nr, flatten_rule (snd nr))) site_rules.
Proof. exact range_rules_flatten_proof. Qed.
Print Assumptions range_rules_flatten.

(* Biopython's weight table is exactly representable at 1e-4 (masses are modelled exactly) *)
Theorem weights_exact_ok : weights_exact = true.
Proof. exact weights_exact_proof. Qed.
Print Assumptions weights_exact_ok.

(* --- the site semantics --- *)

Theorem sites_are_rule_sites : forall r exc s j,
  In j (sites r exc s) <->
  is_site r s j /\ match exc with None => True | Some e => ~ is_site e s j end.
Proof. exact sites_spec. Qed.
Print Assumptions sites_are_rule_sites.

Theorem sites_strictly_increasing : forall r exc s, incr_from 0 (sites r exc s).
Proof. exact sites_increasing. Qed.
Print Assumptions sites_strictly_increasing.

(* independence of partitioning: cut s = a ++ b anywhere; the sites of the whole are the sites of
   each part examined with reach_b residues of left and reach_a residues of right context *)
Theorem sites_partition_independent : forall r exc a b,
  sites r exc (a ++ b) =
  sites_ctx r exc [] a (firstn (reach_a r exc) b) 0 ++
  sites_ctx r exc (firstn (reach_b r exc) (rev a)) b [] (length a).
Proof. exact sites_partition. Qed.
Print Assumptions sites_partition_independent.

Theorem sites_window : forall r exc s rl rt i,
  sites_ctx r exc rl s rt i =
  sites_ctx r exc (firstn (reach_b r exc) rl) s (firstn (reach_a r exc) rt) i.
Proof. exact sites_ctx_window. Qed.
Print Assumptions sites_window.

(* --- digestion and the pool --- *)

Theorem cleave_is_declarative_digest : forall wt water lim r exc nf s p,
  In p (cleave wt water lim r exc nf s) <-> Digest_product wt water lim r exc nf s p.
Proof. exact cleave_spec. Qed.
Print Assumptions cleave_is_declarative_digest.

Theorem cleave_monotone_in_miscleavage : forall wt water lim1 lim2 r exc nf s p,
  (lim_k lim1 <= lim_k lim2)%Z ->
  lim_min_mw4 lim1 = lim_min_mw4 lim2 -> lim_min_len lim1 = lim_min_len lim2 ->
  lim_max_len lim1 = lim_max_len lim2 ->
  In p (cleave wt water lim1 r exc nf s) -> In p (cleave wt water lim2 r exc nf s).
Proof. exact cleave_mono_k. Qed.
Print Assumptions cleave_monotone_in_miscleavage.

Theorem pool_is_union_of_digests_and_I2L_images : forall wt water lim r exc prots q,
  In q (pool wt water lim r exc prots) <->
  exists pr p, In pr prots /\ In p (cleave wt water lim r exc (snd pr) (prep (fst pr))) /\
               (q = p \/ q = i2l p).
Proof. exact pool_spec. Qed.
Print Assumptions pool_is_union_of_digests_and_I2L_images.

Theorem pool_closed_under_I2L : forall wt water lim r exc prots q,
  In q (pool wt water lim r exc prots) -> In (i2l q) (pool wt water lim r exc prots).
Proof. exact pool_closed_I2L. Qed.
Print Assumptions pool_closed_under_I2L.

(* the model-level statement of defect D14: computing sites node by node WITHOUT context
   (what the graph engine does for the exception) is not the site set of the whole sequence *)
Theorem nodewise_exception_refuted :
  exists r e a b, sites r (Some e) (a ++ b) <>
                  sites r (Some e) a ++ map (fun j => (j + length a)%nat) (sites r (Some e) b).
Proof. exact nodewise_exception_refuted_proof. Qed.
Print Assumptions nodewise_exception_refuted.

(* --- the auxiliary site helpers the graph engine calls (find_all_cleave_and_stop_sites etc.) --- *)
From MoPep Require Import Model.SitesExtra Proofs.SitesExtraProofs.
From Coq Require Import Sorted.

Theorem cleave_and_stop_sites_exact : forall r exc given s j,
  In j (find_all_cleave_and_stop_sites r exc given s) <->
  In j (sites_given r exc given s) \/
  ((0 < j)%nat /\ nth_error s j = Some STAR_code) \/
  (exists i, j = S i /\ nth_error s i = Some STAR_code /\ (i < length s - 1)%nat).
Proof. exact all_cleave_stop_spec. Qed.
Print Assumptions cleave_and_stop_sites_exact.

Theorem cleave_and_stop_sites_sorted : forall r exc given s,
  Sorted lt (find_all_cleave_and_stop_sites r exc given s).
Proof. exact all_cleave_stop_sorted. Qed.
Print Assumptions cleave_and_stop_sites_sorted.

(* --- pairing of sites with range-pattern matches (iter_enzymatic_cleave_sites_with_range) --- *)
From MoPep Require Import Proofs.PairingProofs.

(* obligation over the regenerated table: every rule passes the decidable pairing check
   (alternatives with different look-behind lengths carry disjoint classes at every aligned offset
   that could produce two ranges for one site, or invert the order) *)
Theorem all_rules_pair_ok : forallb (fun nr => pair_ok (snd nr)) site_rules = true.
Proof. exact all_pairs_ok_proof. Qed.
Print Assumptions all_rules_pair_ok.

(* for such a rule and EVERY string: no "Inconsistent cleavage sites" error, the sites are those of
   iter_enzymatic_cleave_sites, and each site is paired with the span of an alternative producing it *)
Theorem sites_with_range_correct : forall r exc s, pair_ok r = true ->
  exists l, sites_with_range r (flatten_rule r) exc s = Some l /\
    map fst l = sites r exc s /\
    forall j p q, In (j, (p, q)) l ->
      exists a, In a r /\ match_at (flatten_alt a) s p = true /\
                (j = p + lbn a + 1)%nat /\ (q = p + length (flatten_alt a))%nat.
Proof. exact sites_with_range_paired. Qed.
Print Assumptions sites_with_range_correct.

(* ---- code-level tie (docs/py2coq.md): the double `while` loop of AminoAcidSeqRecord.enzymatic_cleave, translated
        from /repo's current source by harness/translate/py2coq.py (coq/Gen/Py_AminoAcidSeqRecord.v, regenerated on
        every run; explicit fuel S (length bounds) for either loop), computes exactly Digest.cleave_loop on EVERY
        boundary list: it never runs out of fuel, never indexes out of range, and returns the model's peptide list.
        The pinned-text config entries (construction of `sites` = bounds_of, closure update_peptides = Digest.update)
        are the trusted part; the C10 correspondence compares them on every run. ---- *)
(* --- exactness of the digest as a TILING: the zero-missed-cleavage pieces over the boundary list
   cleave uses (0, the sites, |s|) concatenate back to the protein - no residue is lost or reported
   twice by the cutting itself; every longer product is a run of consecutive tiles (cleave_spec) --- *)
From MoPep Require Import Proofs.DigestTileProofs.

Theorem digest_pieces_tile_the_protein : forall r exc s,
  bounds_of r exc s = 0%nat :: sites r exc s ++ [length s] /\
  concat (map (fun ab => piece s (fst ab) (snd ab))
              (combine (bounds_of r exc s) (tl (bounds_of r exc s)))) = s.
Proof. exact bounds_tile. Qed.
Print Assumptions digest_pieces_tile_the_protein.

Theorem digest_pieces_conserve_length : forall r exc s,
  list_sum (map (@length Z) (tiles s 0 (sites r exc s ++ [length s]))) = length s.
Proof. exact tiles_length. Qed.
Print Assumptions digest_pieces_conserve_length.

Theorem sites_within_sequence : forall r exc s j, In j (sites r exc s) -> (j <= length s)%nat.
Proof. exact sites_le_length. Qed.
Print Assumptions sites_within_sequence.

(* every digest product is a contiguous substring of the protein and satisfies the limits *)
Theorem digest_products_are_substrings_within_limits : forall wt water lim r exc nf s p,
  In p (cleave wt water lim r exc nf s) ->
  (exists u v, s = u ++ p ++ v) /\ keep wt water lim p = true.
Proof. exact cleave_products_substrings. Qed.
Print Assumptions digest_products_are_substrings_within_limits.

(* provenance of the pool: a member is (the I->L image of) a stop-free contiguous stretch of one of
   the proteins that passes the limits - the pool invents nothing *)
Theorem pool_members_are_protein_substrings : forall wt water lim r exc prots q,
  In q (pool wt water lim r exc prots) ->
  exists pr p, In pr prots /\ (q = p \/ q = i2l p) /\
    (exists u v, fst pr = u ++ p ++ v) /\ memZ STAR_code p = false /\ keep wt water lim p = true.
Proof. exact pool_members_come_from_proteins. Qed.
Print Assumptions pool_members_are_protein_substrings.

(* "including the N-terminal-methionine-removed form unless the transcript is cds_start_NF": the
   known-start digest contains the cds_start_NF digest, and every extra product sits right after
   the initial M of the protein *)
Theorem known_start_digest_contains_nf_digest : forall wt water lim r exc s p,
  In p (cleave wt water lim r exc true s) -> In p (cleave wt water lim r exc false s).
Proof. exact cleave_nf_subset. Qed.
Print Assumptions known_start_digest_contains_nf_digest.

Theorem known_start_extra_products_follow_initial_M : forall wt water lim r exc s p,
  In p (cleave wt water lim r exc false s) -> ~ In p (cleave wt water lim r exc true s) ->
  exists v, s = M_code :: p ++ v.
Proof. exact cleave_known_start_extra. Qed.
Print Assumptions known_start_extra_products_follow_initial_M.

From MoPep Require Gen.Py_AminoAcidSeqRecord.
From MoPep Require Import Model.PyRt Proofs.Py2CoqDigestProofs.

Theorem code_enzymatic_cleave_translated : Py_AminoAcidSeqRecord.enzymatic_cleave_untranslated = false.
Proof. vm_compute. reflexivity. Qed.
Print Assumptions code_enzymatic_cleave_translated.

Theorem code_enzymatic_cleave_is_model : forall wt water lim s nf bounds,
  Py_AminoAcidSeqRecord.enzymatic_cleave wt water lim s nf bounds = POk (cleave_loop wt water lim s nf true bounds).
Proof. exact code_enzymatic_cleave_is_model_l. Qed.
Print Assumptions code_enzymatic_cleave_is_model.
