From MoPep Require Import Model.Base.
