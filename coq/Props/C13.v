(* C13 -- GVF files: lossless round trip and index-equivalent access.  Property theorems only. *)
From Coq Require Import ZArith List Bool.
Import ListNotations.
From MoPep Require Import Model.Base Model.Gvf Gen.GvfConst Model.GvfGen Proofs.GvfProofs Proofs.GvfGenProofs.
Open Scope Z_scope.

(* -------- obligations on the constants regenerated from the source on every run -------- *)

(* the translator understood every construct it reads (fail-closed marker) *)
Theorem gvfconst_shape_ok : shape_ok = true.
Proof. exact shape_ok_true. Qed.
Print Assumptions gvfconst_shape_ok.

(* writer and reader tables agree: every symbolic ALT the writer can emit for a type the reader
   knows maps back to a type written with the same ALT; END is not a shifted attribute; ... *)
Theorem gvf_tables_consistent : cfg_ok gen_cfg = true.
Proof. exact gen_cfg_ok. Qed.
Print Assumptions gvf_tables_consistent.

Theorem circ_writer_keys_ok : keys_ok circ_wkeys = true.
Proof. exact gen_wkeys_ok. Qed.
Print Assumptions circ_writer_keys_ok.

(* -------- variant records: write(parse(write r)) = write r, character level -------- *)

(* for every constant table that passes the consistency check, and every well-formed record *)
Theorem gvf_write_parse_write_any_tables : forall C, cfg_ok C = true -> forall r, wf_rec C r = true ->
  exists s r', to_string C r = Ok s /\ line_to_variant_record C (s ++ [NL]) = Ok r' /\ to_string C r' = Ok s.
Proof. exact var_roundtrip. Qed.
Print Assumptions gvf_write_parse_write_any_tables.

(* for the tables of the code as it is now *)
Theorem gvf_write_parse_write : forall r, wf_rec gen_cfg r = true ->
  exists s r', to_string gen_cfg r = Ok s /\ line_to_variant_record gen_cfg (s ++ [NL]) = Ok r' /\
               to_string gen_cfg r' = Ok s.
Proof. exact gvf_roundtrip_gen. Qed.
Print Assumptions gvf_write_parse_write.

(* the hypothesis is satisfiable by every record kind written to GVF, with shifted attributes given
   as int and as str, list-valued and empty attributes *)
Definition S (s : list Z) := s.
Definition ex_attrs : list (seq * aval) :=
  [([84;82;65;78;83;67;82;73;80;84;95;73;68], AStr [84;49]);       (* TRANSCRIPT_ID=T1 *)
   ([71;69;78;69;95;83;89;77;66;79;76], AStr []);                   (* GENE_SYMBOL= *)
   ([73;68;83], AList [[97];[98]])].                                (* IDS=a,b *)
Definition ex_records : list varrec :=
  [ mkVar [71] 5 6 [65] [84] [83;78;86] [120] ex_attrs;                                        (* SNV *)
    mkVar [71] 5 6 [65] [84;84;71] [73;78;68;69;76] [120] ex_attrs;                            (* INDEL *)
    mkVar [71] 5 7 [65;67] [84;71] [77;78;86] [120] ex_attrs;                                  (* MNV *)
    mkVar [71] 5 6 [65] [71] [82;78;65;69;100;105;116;105;110;103;83;105;116;101] [120] ex_attrs; (* RNAEditingSite *)
    mkVar [71] 5 6 [65] [60;70;85;83;73;79;78;62] [70;117;115;105;111;110] [120]
          (ex_attrs ++ [([65;67;67;69;80;84;69;82;95;80;79;83;73;84;73;79;78], AInt 41)]);     (* Fusion, ACCEPTER_POSITION int *)
    mkVar [71] 5 6 [65] [60;73;78;83;62] [73;110;115;101;114;116;105;111;110] [120]
          (ex_attrs ++ [([68;79;78;79;82;95;83;84;65;82;84], AStr [52;49]); ([68;79;78;79;82;95;69;78;68], AInt 50)]); (* Insertion *)
    mkVar [71] 5 9 [65;67;71;84] [60;68;69;76;62] [68;101;108;101;116;105;111;110] [120]
          (ex_attrs ++ [([83;84;65;82;84], AInt 5); ([69;78;68], AInt 9)]);                    (* Deletion *)
    mkVar [71] 5 9 [65] [60;83;85;66;62] [83;117;98;115;116;105;116;117;116;105;111;110] [120]
          (ex_attrs ++ [([83;84;65;82;84], AStr [53]); ([69;78;68], AStr [57]);
                        ([68;79;78;79;82;95;83;84;65;82;84], AInt 1); ([68;79;78;79;82;95;69;78;68], AInt 4)]) (* Substitution *) ].
Example every_kind_is_well_formed : forallb (wf_rec gen_cfg) ex_records = true.
Proof. vm_compute. reflexivity. Qed.
(* and the conclusion is not vacuous on them: the second write reproduces the text *)
Example every_kind_round_trips :
  forallb (fun r => match var_wpw gen_cfg r, to_string gen_cfg r with
                    | Ok a, Ok b => eq_seq a b | _, _ => false end) ex_records = true.
Proof. vm_compute. reflexivity. Qed.

(* -------- circRNA records -------- *)

(* the model of the code once reader and writer use the same six keys (the proposed fix D6):
   parsing the written line gives back the record itself, hence the second write is identical *)
Theorem circ_write_parse_write_fixed : forall wk, keys_ok wk = true -> forall c, wf_circ c = true ->
  (exists s, circ_to_string wk c = Ok s /\ line_to_circ wk (s ++ [NL]) = Ok c) /\
  circ_wpw wk wk c = circ_to_string wk c.
Proof.
  intros wk Hk c W. split; [exact (circ_parse_write wk Hk c W) | exact (proj1 (circ_roundtrip_keys wk Hk c W))].
Qed.
Print Assumptions circ_write_parse_write_fixed.

(* the code as it is now (keys regenerated from circ/io.py and circ/CircRNA.py on every run):
   either the keys agree and the round trip holds for all well-formed records, or they differ and a
   concrete record loses information.  On the tree with D6 the second branch is the one proved. *)
Theorem circ_write_parse_write_current :
  if list_eqb circ_rkeys circ_wkeys
  then forall c, wf_circ c = true -> circ_wpw circ_wkeys circ_rkeys c = circ_to_string circ_wkeys c
  else exists c, wf_circ c = true /\ circ_wpw circ_wkeys circ_rkeys c <> circ_to_string circ_wkeys c.
Proof. exact circ_current. Qed.
Print Assumptions circ_write_parse_write_current.

Theorem circ_roundtrip_refuted : list_eqb circ_rkeys circ_wkeys = false ->
  exists c, wf_circ c = true /\ circ_wpw circ_wkeys circ_rkeys c <> circ_to_string circ_wkeys c.
Proof. exact circ_refuted_if_differ. Qed.
Print Assumptions circ_roundtrip_refuted.

Example circ_hypothesis_satisfiable : wf_circ d6_witness = true.
Proof. reflexivity. Qed.

(* -------- index-equivalent access -------- *)

(* One file, as BYTES: header comment lines followed by record lines (valid UTF-8, newline terminated,
   possibly CRLF, each parsed by the file's parser); offsets are byte offsets, text is decoded UTF-8.  The pointers of iterate_pointer, loaded through byte offsets, give for every key
   exactly the records of a linear scan with that transcript id, in the same order; any grouping or
   interleaving of transcript ids. *)
Theorem index_equiv_one_file : forall C rk ic cs ts,
  Forall is_comment cs -> Forall (good rec2 (parse2 C rk) key2 ic) ts ->
  exists ps,
    iterate_pointer rec2 (parse2 C rk) key2 ic (file_lines rec2 cs ts) = Ok ps /\
    scan rec2 (parse2 C rk) ic (file_lines rec2 cs ts) = Ok (map (t_rec rec2) ts) /\
    forall k,
      with_key rec2 key2 k (map (t_rec rec2) ts) = Ok (map (t_rec rec2) (sel rec2 k ts)) /\
      (forall post, gather rec2 (parse2 C rk) ic (concat (file_lines rec2 cs ts) ++ post) k ps
                    = Ok (map (t_rec rec2) (sel rec2 k ts))) /\
      has_key k ps = existsb (fun t => eq_seq (t_key rec2 t) k) ts.
Proof. intros C rk. exact (index_equiv_file rec2 (parse2 C rk) key2 (parse2_rstrip C rk)). Qed.
Print Assumptions index_equiv_one_file.

(* Any number of files, variant and circRNA files mixed, pointers obtained by iterate_pointer: the pool's
   lookup returns the concatenation over the files of the linear-scan records for the key (equal as
   lists, hence as the set the code builds from them), and KeyError exactly when no file has the key. *)
Theorem index_equiv : forall C rk qs k,
  Forall (good_q rec2 (parse2 C rk) key2) qs ->
  exists L, linear rec2 (parse2 C rk) key2 qs k = Ok L /\
    pool_get rec2 (parse2 C rk) (pool_files rec2 qs) k =
      (if key_present rec2 qs k then Ok (concat L) else Err EKey).
Proof. intros C rk. exact (GvfProofs.index_equiv rec2 (parse2 C rk) key2 (parse2_rstrip C rk)). Qed.
Print Assumptions index_equiv.

(* the text-mode hypothesis inside `good` holds for every LF line and every CRLF line without a stray
   carriage return (a lone CR is a line break in text mode but not in the binary index: finding C13-loneCR) *)
Theorem text_mode_lines : forall c, ~ In NL c -> ~ In CR c ->
  unl (c ++ [NL]) [] = [c ++ [NL]] /\
  unl ((c ++ [CR]) ++ [NL]) [] = [c ++ [NL]] /\ rstrip ((c ++ [CR]) ++ [NL]) = rstrip (c ++ [NL]).
Proof. intros c H1 H2. split; [apply unl_plain; auto | split; [apply unl_crlf; auto | apply rstrip_crlf]]. Qed.
Print Assumptions text_mode_lines.

(* -------- the .idx route and the checksum gate (digest abstract; SHA-512 assumed injective) -------- *)

(* an index written by indexGVF for exactly this content is accepted and yields the same pointers as
   generating them on open -- so index_equiv covers files with and without .idx *)
Theorem fresh_idx_accepted : forall (D : Type) (D_eqb : D -> D -> bool) (digest : seq -> D),
  (forall a b, D_eqb a b = true <-> a = b) ->
  forall C rk ic lines ix ps,
    index_gvf rec2 (parse2 C rk) key2 D digest ic lines = Ok ix ->
    iterate_pointer rec2 (parse2 C rk) key2 ic lines = Ok ps -> Forall key_clean ps ->
    open_file rec2 (parse2 C rk) key2 D D_eqb digest ic lines (Some ix) = Ok ps.
Proof. intros D D_eqb digest H C rk. exact (GvfProofs.fresh_idx_accepted rec2 (parse2 C rk) key2 D D_eqb digest H). Qed.
Print Assumptions fresh_idx_accepted.

(* an index written for other content is rejected: append, reorder, single byte *)
Theorem stale_idx_rejected : forall (D : Type) (D_eqb : D -> D -> bool) (digest : seq -> D),
  (forall a b, D_eqb a b = true <-> a = b) -> (forall a b, digest a = digest b -> a = b) ->
  forall C rk ic lines0 lines ix,
    index_gvf rec2 (parse2 C rk) key2 D digest ic lines0 = Ok ix -> concat lines <> concat lines0 ->
    open_file rec2 (parse2 C rk) key2 D D_eqb digest ic lines (Some ix) = Err EValue.
Proof.
  intros D D_eqb digest H1 H2 C rk.
  exact (GvfProofs.stale_idx_rejected rec2 (parse2 C rk) key2 D D_eqb digest H1 H2).
Qed.
Print Assumptions stale_idx_rejected.

Theorem idx_without_checksum_rejected : forall (D : Type) (D_eqb : D -> D -> bool) (digest : seq -> D) C rk ic lines l,
  open_file rec2 (parse2 C rk) key2 D D_eqb digest ic lines (Some (None, l)) = Err EValue.
Proof. reflexivity. Qed.
Print Assumptions idx_without_checksum_rejected.

(* -------- the hypotheses of index_equiv are satisfiable: a file with interleaved transcript ids -------- *)
Definition ex_with_tx (r : varrec) (tx : seq) : varrec :=
  mkVar (v_seqname r) (v_start r) (v_end r) (v_ref r) (v_alt r) (v_type r) (v_id r)
        (([84;82;65;78;83;67;82;73;80;84;95;73;68], AStr tx) :: tl (v_attrs r)).
Definition ex_line (r : varrec) : seq :=
  match to_string gen_cfg r with Ok s => s ++ [NL] | Err _ => [] end.
Definition ex_t (r : varrec) (tx : seq) : T rec2 :=
  let l := ex_line (ex_with_tx r tx) in
  (l, removelast l, match parse2 gen_cfg circ_rkeys false l with Ok x => x | Err _ => inl r end, tx).
Definition ex_file : list (T rec2) :=
  [ex_t (nth 0 ex_records (mkVar [] 0 0 [] [] [] [] [])) [84;49];      (* T1 *)
   ex_t (nth 6 ex_records (mkVar [] 0 0 [] [] [] [] [])) [84;50];      (* T2 *)
   ex_t (nth 4 ex_records (mkVar [] 0 0 [] [] [] [] [])) [84;49]].     (* T1 again: two pointers for T1 *)
Ltac solve_good :=
  match goal with
  | |- good _ _ _ _ ?t =>
    split; [vm_compute; reflexivity|];
    split; [vm_compute; let H := fresh "H" in intro H; repeat (destruct H as [H|H]; [discriminate H|]); exact H|];
    split; [vm_compute; discriminate|];
    split; [vm_compute; reflexivity|];
    split; [vm_compute; reflexivity|];
    split; [vm_compute; reflexivity|];
    eexists; split; [vm_compute; reflexivity|]; split; vm_compute; reflexivity
  end.
Example index_hypothesis_satisfiable :
  Forall (good_q rec2 (parse2 gen_cfg circ_rkeys) key2)
         [(false, [[35; 35; 195; 169; 10]; [35; 67; 72; 82; 79; 77; 10]], ex_file,
           match iterate_pointer rec2 (parse2 gen_cfg circ_rkeys) key2 false
                   (file_lines rec2 [[35; 35; 195; 169; 10]; [35; 67; 72; 82; 79; 77; 10]] ex_file)
           with Ok ps => ps | Err _ => [] end)].
Proof.
  constructor; [|constructor]. split; [|split].
  - repeat (constructor; [eexists; eexists; split; [vm_compute; reflexivity|]; split; [vm_compute; reflexivity|]; split; vm_compute; reflexivity|]). constructor.
  - unfold ex_file. repeat (constructor; [solve_good|]). constructor.
  - vm_compute. reflexivity.
Qed.
Example index_example_has_three_pointers :
  match iterate_pointer rec2 (parse2 gen_cfg circ_rkeys) key2 false
          (file_lines rec2 [[35; 35; 195; 169; 10]; [35; 67; 72; 82; 79; 77; 10]] ex_file)
  with Ok ps => length ps | Err _ => O end = 3%nat.
Proof. vm_compute. reflexivity. Qed.

(* ---- code-level tie (docs/py2coq.md): the BODY of GVFIndex.iterate_pointer -- a generator; `yield p` appends to the
        returned list -- translated from /repo's current source by harness/translate/py2coq.py into
        coq/Gen/Py_GVFIndex.v on every run (byte offsets accumulated over the byte lines, strict UTF-8 decoding, comment
        lines skipped but counted, one pointer per run of equal transcript ids, `pointer.end` extended, the last pointer
        yielded after the loop, parser / decoder errors propagated), is extensionally equal to the model function for
        EVERY parser P and key function. ---- *)
From MoPep Require Gen.Py_GVFIndex.
From MoPep Require Import Proofs.Py2CoqGvfProofs.

Theorem code_iterate_pointer_translated : Py_GVFIndex.py_iterate_pointer_untranslated = false.
Proof. vm_compute. reflexivity. Qed.
Print Assumptions code_iterate_pointer_translated.

Theorem code_iterate_pointer_is_model : forall R P key_of ic lines,
  Py_GVFIndex.py_iterate_pointer R P key_of ic lines = iterate_pointer R P key_of ic lines.
Proof. exact code_iterate_pointer_is_model_l. Qed.
Print Assumptions code_iterate_pointer_is_model.
