(* C06 - the peptide set is independent of threads, file layout, indexing, hashing.
   Property theorems about the dispatch loop (Model/Batch.v); proofs in Proofs/BatchProofs.v.

   l : list (transcript, skipped?) is tx_sorted paired with whether gather_data_for_call_variant
   returned None for it; batches_orig / batches_fix are the lists of batches handed to
   caller_reducer by the loop as written / after proposed_fixes/C06_D3.patch;
   nonskipped l are the transcripts that must be processed. *)
From Coq Require Import ZArith List Bool Permutation.
From MoPep Require Import Model.Base Model.Batch Proofs.BatchProofs.
Import ListNotations.
Open Scope Z_scope.

(* repaired loop: for every thread count and every skip pattern the concatenation of the batches
   is exactly the list of non-skipped transcripts - each once, in order *)
Theorem all_dispatched :
  forall threads l, 1 <= threads -> concat (batches_fix threads l) = nonskipped l.
Proof. exact all_dispatched_l. Qed.
Print Assumptions all_dispatched.

(* FINDING D3: the loop as written (i not incremented on `continue`): transcripts
   [run; skipped; run] with --threads 3 -> no batch is ever dispatched *)
Theorem all_dispatched_refuted :
  exists threads l, 1 <= threads /\ concat (batches_orig threads l) <> nonskipped l /\
                    batches_orig threads l = [].
Proof. exact all_dispatched_refuted_l. Qed.
Print Assumptions all_dispatched_refuted.

(* ... which no --threads 1 run can show: with one thread the loop as written is correct *)
Theorem all_dispatched_single :
  forall l, concat (batches_orig 1 l) = nonskipped l.
Proof. exact all_dispatched_single_l. Qed.
Print Assumptions all_dispatched_single.

(* repaired loop: every batch is non-empty and fits the pool *)
Theorem batch_sizes :
  forall threads l, 1 <= threads -> Forall (fun b => 0 < zlen b <= threads) (batches_fix threads l).
Proof. exact batch_sizes_l. Qed.
Print Assumptions batch_sizes.

(* hence whatever a transcript yields (result: any function of the transcript), the collected
   results do not depend on the thread count *)
Theorem thread_independent :
  forall (result : Z -> list Z) t1 t2 l, 1 <= t1 -> 1 <= t2 ->
  flat_map result (concat (batches_fix t1 l)) = flat_map result (concat (batches_fix t2 l)).
Proof. exact thread_independent_l. Qed.
Print Assumptions thread_independent.

(* record gathering: files = list of files, a file = list of (transcript, record).  If two
   layouts hold the same records (any split into files, any order of files and of records), every
   transcript gets the same record set and the same transcripts have records *)
Theorem gather_layout_free :
  forall files files', Permutation (concat files) (concat files') ->
  (forall tx r, In r (gather tx files) <-> In r (gather tx files')) /\
  (forall tx, In tx (keys files) <-> In tx (keys files')).
Proof. exact gather_layout_free_l. Qed.
Print Assumptions gather_layout_free.

(* Tie to the source, re-checked against the regenerated Gen/BatchLoop.v on every run: the dispatch
   loop in call_variant_peptide.py has the shape of step_orig (0) or of step_fix (1); any other
   shape makes the translator emit 99 and this obligation fail. *)
Theorem loop_modelled : Gen.BatchLoop.loop_variant = 0 \/ Gen.BatchLoop.loop_variant = 1.
Proof. exact loop_modelled_l. Qed.
Print Assumptions loop_modelled.

(* ---- code-level tie (docs/py2coq.md): the BODY of the dispatch loop (`dispatches = []` .. `for tx_id in
        tx_sorted:`), translated from /repo's current source by harness/translate/py2coq.py into
        coq/Gen/Py_call_variant_peptide.v on every run, hands exactly the batches of the repaired-loop model to
        caller_reducer, for every thread count and every skip pattern.  Stronger than loop_modelled (a text match):
        it survives harmless rewrites of the loop and breaks on any semantic edit of it. ---- *)
From MoPep Require Gen.Py_call_variant_peptide.
From MoPep Require Import Proofs.Py2CoqBatchProofs.

Theorem code_batching_loop_translated :
  Py_call_variant_peptide.call_variant_peptide_batches_untranslated = false.
Proof. vm_compute. reflexivity. Qed.
Print Assumptions code_batching_loop_translated.

Theorem code_call_variant_peptide_batches_is_model : forall threads l,
  Py_call_variant_peptide.call_variant_peptide_batches threads l = batches_fix threads l.
Proof. exact code_call_variant_peptide_batches_is_model_l. Qed.
Print Assumptions code_call_variant_peptide_batches_is_model.
