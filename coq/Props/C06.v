(* C06 - the peptide set is independent of threads, file layout, indexing, hashing.
   Property theorems about the dispatch loop (Model/Batch.v); proofs in Proofs/BatchProofs.v.

   l : list (transcript, skipped?) is tx_sorted paired with whether gather_data_for_call_variant
   returned None for it; batches_orig / batches_fix are the lists of batches handed to
   caller_reducer by the loop as written / after proposed_fixes/C06_D3.patch;
   nonskipped l are the transcripts that must be processed. *)
From Coq Require Import ZArith List Bool Permutation.
From MoPep Require Import Model.Base Model.Batch Proofs.BatchProofs.
Import ListNotations.
Open Scope Z_scope.

(* repaired loop: for every thread count and every skip pattern the concatenation of the batches
   is exactly the list of non-skipped transcripts - each once, in order *)
Theorem all_dispatched :
  forall threads l, 1 <= threads -> concat (batches_fix threads l) = nonskipped l.
Proof. exact all_dispatched_l. Qed.
Print Assumptions all_dispatched.

(* FINDING D3: the loop as written (i not incremented on `continue`): transcripts
   [run; skipped; run] with --threads 3 -> no batch is ever dispatched *)
Theorem all_dispatched_refuted :
  exists threads l, 1 <= threads /\ concat (batches_orig threads l) <> nonskipped l /\
                    batches_orig threads l = [].
Proof. exact all_dispatched_refuted_l. Qed.
Print Assumptions all_dispatched_refuted.

(* ... which no --threads 1 run can show: with one thread the loop as written is correct *)
Theorem all_dispatched_single :
  forall l, concat (batches_orig 1 l) = nonskipped l.
Proof. exact all_dispatched_single_l. Qed.
Print Assumptions all_dispatched_single.

(* repaired loop: every batch is non-empty and fits the pool *)
Theorem batch_sizes :
  forall threads l, 1 <= threads -> Forall (fun b => 0 < zlen b <= threads) (batches_fix threads l).
Proof. exact batch_sizes_l. Qed.
Print Assumptions batch_sizes.

(* hence whatever a transcript yields (result: any function of the transcript), the collected
   results do not depend on the thread count *)
Theorem thread_independent :
  forall (result : Z -> list Z) t1 t2 l, 1 <= t1 -> 1 <= t2 ->
  flat_map result (concat (batches_fix t1 l)) = flat_map result (concat (batches_fix t2 l)).
Proof. exact thread_independent_l. Qed.
Print Assumptions thread_independent.

(* record gathering: files = list of files, a file = list of (transcript, record).  If two
   layouts hold the same records (any split into files, any order of files and of records), every
   transcript gets the same record set and the same transcripts have records *)
Theorem gather_layout_free :
  forall files files', Permutation (concat files) (concat files') ->
  (forall tx r, In r (gather tx files) <-> In r (gather tx files')) /\
  (forall tx, In tx (keys files) <-> In tx (keys files')).
Proof. exact gather_layout_free_l. Qed.
Print Assumptions gather_layout_free.

(* Tie to the source, re-checked against the regenerated Gen/BatchLoop.v on every run: the dispatch
   loop in call_variant_peptide.py has the shape of step_orig (0) or of step_fix (1); any other
   shape makes the translator emit 99 and this obligation fail. *)
Theorem loop_modelled : Gen.BatchLoop.loop_variant = 0 \/ Gen.BatchLoop.loop_variant = 1.
Proof. exact loop_modelled_l. Qed.
Print Assumptions loop_modelled.

(* ---- code-level tie (docs/py2coq.md): the BODY of the dispatch loop (`dispatches = []` .. `for tx_id in
        tx_sorted:`), translated from /repo's current source by harness/translate/py2coq.py into
        coq/Gen/Py_call_variant_peptide.v on every run, hands exactly the batches of the repaired-loop model to
        caller_reducer, for every thread count and every skip pattern.  Stronger than loop_modelled (a text match):
        it survives harmless rewrites of the loop and breaks on any semantic edit of it. ---- *)
From MoPep Require Gen.Py_call_variant_peptide.
From MoPep Require Import Proofs.Py2CoqBatchProofs.

Theorem code_batching_loop_translated :
  Py_call_variant_peptide.call_variant_peptide_batches_untranslated = false.
Proof. vm_compute. reflexivity. Qed.
Print Assumptions code_batching_loop_translated.

Theorem code_call_variant_peptide_batches_is_model : forall threads l,
  Py_call_variant_peptide.call_variant_peptide_batches threads l = batches_fix threads l.
Proof. exact code_call_variant_peptide_batches_is_model_l. Qed.
Print Assumptions code_call_variant_peptide_batches_is_model.

(* ---- record ORDER and record IDENTITY (Model/VarRecord.v; proofs in Proofs/VarRecordProofs.v).
        callVariant de-duplicates the records of a transcript with set() (VariantRecord.__hash__ / __eq__) and sorts
        every series with list.sort() (VariantRecord.__lt__).  vr_eq / vr_gt / vr_ge / vr_lt / vr_le / hash_key mirror the
        six methods (tied to the source by the code_varrecord_* obligations below); `sorted` is a stable sort that
        consults only `<`. ---- *)
From MoPep Require Import Model.VarRecord Proofs.VarRecordProofs.

(* __eq__ is an equivalence *)
Theorem varrecord_eq_equivalence :
  (forall a, vr_eq a a = true) /\ (forall a b, vr_eq a b = true -> vr_eq b a = true) /\
  (forall a b c, vr_eq a b = true -> vr_eq b c = true -> vr_eq a c = true).
Proof. exact vr_eq_equivalence_l. Qed.
Print Assumptions varrecord_eq_equivalence.

(* equal hashed tuples are `==` records (the strand is compared by __eq__ but not hashed, hence the guard) *)
Theorem hash_key_eq :
  forall a b, hash_key a = hash_key b -> l_strand (v_loc a) = l_strand (v_loc b) -> vr_eq a b = true.
Proof. exact hash_key_eq_l. Qed.
Print Assumptions hash_key_eq.

Theorem hash_key_eq_unguarded_refuted : exists a b, hash_key a = hash_key b /\ vr_eq a b = false.
Proof. exact hash_key_eq_unguarded_refuted_l. Qed.
Print Assumptions hash_key_eq_unguarded_refuted.

(* the direction Python's data model requires, a == b -> hash(a) == hash(b), does NOT hold: __hash__ reads eleven
   attributes that __eq__ ignores (two `==` records can both be members of the set) ... *)
Theorem eq_hash_consistent_refuted : exists a b, vr_eq a b = true /\ hash_key a <> hash_key b.
Proof. exact eq_hash_consistent_refuted_l. Qed.
Print Assumptions eq_hash_consistent_refuted.

(* ... and holds exactly under the guard that the eleven hashed attribute values agree *)
Theorem eq_hash_consistent_guarded : forall a b, vr_eq a b = true ->
  (forall k, (k < 11)%nat -> attr a k = attr b k) -> hash_key a = hash_key b.
Proof. exact eq_hash_consistent_guarded_l. Qed.
Print Assumptions eq_hash_consistent_guarded.

(* __gt__ is not antisymmetric: SNV C>A and the insertion C>CG at one position are each `>` the other
   ('A' < 'CG' but 'SNV' > 'INDEL'), so neither is `<` the other and they are not `==` *)
Theorem gt_not_antisymmetric_refuted : exists a b, vr_gt a b = true /\ vr_gt b a = true /\ vr_eq a b = false.
Proof. exact gt_not_antisymmetric_refuted_l. Qed.
Print Assumptions gt_not_antisymmetric_refuted.

(* exactly which pairs are `>` each other: same location, same ref, alt and type ordered oppositely *)
Theorem gt_conflict_iff : forall a b, gt_conflict a b = true <->
  (v_loc a = v_loc b /\ v_ref a = v_ref b /\
   ((str_gtb (v_alt a) (v_alt b) = true /\ str_gtb (v_type b) (v_type a) = true) \/
    (str_gtb (v_alt b) (v_alt a) = true /\ str_gtb (v_type a) (v_type b) = true))).
Proof. exact gt_conflict_iff_l. Qed.
Print Assumptions gt_conflict_iff.

(* a pair that fails the decidable test is `==` without being identical, or `>` both ways, or `<` both ways *)
Theorem pair_not_ok_cases : forall a b, pair_ok a b = false ->
  (vr_eq a b = true /\ a <> b) \/ gt_conflict a b = true \/ incomparable a b = true.
Proof. exact pair_not_ok_cases_l. Qed.
Print Assumptions pair_not_ok_cases.

(* the sort returns its input rearranged, whatever the records *)
Theorem sorted_perm : forall l, Permutation l (sorted l).
Proof. exact sorted_perm_l. Qed.
Print Assumptions sorted_perm.

(* THE positive statement, all lists of all lengths: on conflict-free records the sorted series is a function of
   the multiset of records - not of how they were split over GVF files nor of the order inside the files *)
Theorem sorted_layout_free : forall l l', Permutation l l' -> conflict_free l = true -> sorted l = sorted l'.
Proof. exact sorted_layout_free_l. Qed.
Print Assumptions sorted_layout_free.

(* independent of the sorting ALGORITHM: any `<`-sorted rearrangement of conflict-free records (what list.sort()
   returns for a strict total order, whether by binary insertion or by merging) is this list *)
Theorem sorted_unique : forall l out, conflict_free l = true -> Permutation l out ->
  lt_sorted out = true -> out = sorted l.
Proof. exact sorted_unique_l. Qed.
Print Assumptions sorted_unique.

Theorem sorted_is_sorted : forall l, conflict_free l = true -> lt_sorted (sorted l) = true.
Proof. exact sorted_is_sorted_l. Qed.
Print Assumptions sorted_is_sorted.

(* without the hypothesis the statement is false for the code as written: the witness pair keeps its INPUT order *)
Theorem sorted_layout_dependent_refuted :
  exists l l', Permutation l l' /\ sorted l <> sorted l' /\ conflict_free l = false.
Proof. exact sorted_layout_dependent_refuted_l. Qed.
Print Assumptions sorted_layout_dependent_refuted.

(* three records (SNV C>A, insertions C>CG and C>CA): the SNV is `<`-unrelated to both insertions, which are ordered *)
Theorem sorted_triple_refuted :
  exists a b c, vr_lt c b = true /\ vr_lt a b = false /\ vr_lt b a = false /\ vr_lt a c = false /\ vr_lt c a = false /\
    sorted [b; a; c] <> sorted [a; b; c] /\ sorted [b; c; a] <> sorted [a; b; c].
Proof. exact sorted_triple_refuted_l. Qed.
Print Assumptions sorted_triple_refuted.

(* the hypotheses are satisfiable: five records incl. a duplicate, an SNV and two insertions at one position *)
Theorem conflict_free_example :
  conflict_free [w_far; w_ins; w_snv_t; w_ins; w_ins2] = true /\
  sorted [w_far; w_ins; w_snv_t; w_ins; w_ins2] = [w_ins2; w_ins; w_ins; w_snv_t; w_far] /\
  sorted [w_ins; w_ins2; w_far; w_ins; w_snv_t] = [w_ins2; w_ins; w_ins; w_snv_t; w_far].
Proof. exact conflict_free_example_l. Qed.
Print Assumptions conflict_free_example.

(* set(records): if the records the set identifies (equal hashed tuple and `==`) are identical, the set holds the same
   records whatever the order of delivery ... *)
Theorem dedup_layout_free : forall l l', Permutation l l' ->
  (forall a b, In a l -> In b l -> same_member a b = true -> a = b) ->
  forall x, In x (dedup l) <-> In x (dedup l').
Proof. exact dedup_layout_free_l. Qed.
Print Assumptions dedup_layout_free.

(* ... otherwise the first one delivered stays (the same variant under two ids: the id in the FASTA header follows the
   file order; the peptide sequences do not depend on the id) *)
Theorem dedup_layout_dependent_refuted :
  exists a b, same_member a b = true /\ a <> b /\ dedup [a; b] = [a] /\ dedup [b; a] = [b].
Proof. exact dedup_layout_dependent_refuted_l. Qed.
Print Assumptions dedup_layout_dependent_refuted.

(* ---- code-level tie (docs/py2coq.md, the VariantRecord targets): the bodies of the eight methods, regenerated from /repo's current
        source into Gen/Py_VariantRecord.v on every run, equal the model functions for ALL arguments ---- *)
From MoPep Require Gen.Py_VariantRecord.
From MoPep Require Import Proofs.Py2CoqVarRecordProofs.

Theorem code_varrecord_methods_translated :
  Py_VariantRecord.py_loc_eq_untranslated || Py_VariantRecord.py_loc_gt_untranslated ||
  Py_VariantRecord.py_vr_eq_untranslated || Py_VariantRecord.py_vr_gt_untranslated ||
  Py_VariantRecord.py_vr_ge_untranslated || Py_VariantRecord.py_vr_lt_untranslated ||
  Py_VariantRecord.py_vr_le_untranslated || Py_VariantRecord.py_vr_hash_key_untranslated = false.
Proof. vm_compute. reflexivity. Qed.
Print Assumptions code_varrecord_methods_translated.

Theorem code_featurelocation_eq_is_model : forall a b, Py_VariantRecord.py_loc_eq a b = loc_eqb a b.
Proof. exact code_featurelocation_eq_is_model_l. Qed.
Print Assumptions code_featurelocation_eq_is_model.

Theorem code_featurelocation_gt_is_model : forall a b, Py_VariantRecord.py_loc_gt a b = loc_gtb a b.
Proof. exact code_featurelocation_gt_is_model_l. Qed.
Print Assumptions code_featurelocation_gt_is_model.

Theorem code_varrecord_eq_is_model : forall a b, Py_VariantRecord.py_vr_eq a b = vr_eq a b.
Proof. exact code_varrecord_eq_is_model_l. Qed.
Print Assumptions code_varrecord_eq_is_model.

Theorem code_varrecord_gt_is_model : forall a b, Py_VariantRecord.py_vr_gt a b = vr_gt a b.
Proof. exact code_varrecord_gt_is_model_l. Qed.
Print Assumptions code_varrecord_gt_is_model.

Theorem code_varrecord_ge_is_model : forall a b, Py_VariantRecord.py_vr_ge a b = vr_ge a b.
Proof. exact code_varrecord_ge_is_model_l. Qed.
Print Assumptions code_varrecord_ge_is_model.

Theorem code_varrecord_lt_is_model : forall a b, Py_VariantRecord.py_vr_lt a b = vr_lt a b.
Proof. exact code_varrecord_lt_is_model_l. Qed.
Print Assumptions code_varrecord_lt_is_model.

Theorem code_varrecord_le_is_model : forall a b, Py_VariantRecord.py_vr_le a b = vr_le a b.
Proof. exact code_varrecord_le_is_model_l. Qed.
Print Assumptions code_varrecord_le_is_model.

Theorem code_varrecord_hash_is_model : forall a, Py_VariantRecord.py_vr_hash_key a = hash_key a.
Proof. exact code_varrecord_hash_is_model_l. Qed.
Print Assumptions code_varrecord_hash_is_model.
