(* C04 - output hygiene: non-canonical, within limits, unique, table consistent.  Property theorems only.

   Model: Model/PepTable.v (VariantPeptideTable as a log-structured text store + index, the filters of
   VariantPeptideTable.is_valid / VariantPeptidePool.add_peptide / *.is_valid_seq, VariantPeptidePool's label
   merge, the callVariant loop, and the decider hygiene_ok that the end-to-end check runs on written FASTA files).
   All statements are for ALL sequences of operations (induction over fold_left), no bound on anything. *)
From Coq Require Import ZArith List Bool.
From MoPep Require Gen.Expasy Model.ExpasyRef Proofs.ExpasyProofs.
From MoPep Require Import Model.Base Model.Digest Model.PepTable Model.PepFilterLang Gen.Bio Gen.PepFilter.
From MoPep Require Import Proofs.PepTableProofs.
Import ListNotations.
Open Scope Z_scope.

(* ---- the table refines an insertion-ordered multimap ------------------------------------------------
   good_op: sequence and label contain no TAB / NL, the id fields of the segments contain no NL, and the
   annotation has at least one segment.  After ANY sequence of add_peptide calls, write_fasta (which seeks,
   reads, strips, splits and compares the text back) succeeds and lists each added sequence exactly once,
   with exactly the labels it was added with, and nothing else. *)
Theorem table_refines_map : forall ops, Forall good_op ops ->
  exists recs, write_fasta (run_adds ops) = FastaOk recs /\
    recs = fasta_of_amap (amap_of ops) /\
    NoDup (map fst recs) /\
    (forall p, In p (map fst recs) <-> exists a, In (p, a) ops) /\
    (forall p ls, In (p, ls) recs ->
       NoDup ls /\ forall l, In l ls <-> exists a, In (p, a) ops /\ an_label a = l).
Proof. exact table_refines_map_proof. Qed.
Print Assumptions table_refines_map.

(* records come in first-occurrence order of the sequence, entries in first-occurrence order of the label *)
Theorem fasta_in_insertion_order : forall ops,
  fasta_of_amap (amap_of ops) =
  map (fun p => (p, dedup (map an_label (vals_for p ops)))) (dedup (map fst ops)).
Proof. exact fasta_order_proof. Qed.
Print Assumptions fasta_in_insertion_order.

Theorem fasta_unique : forall ops recs, Forall good_op ops ->
  write_fasta (run_adds ops) = FastaOk recs -> NoDup (map fst recs).
Proof.
  intros ops recs Hg H. destruct (table_refines_map_proof ops Hg) as (recs' & H' & _ & Hnd & _).
  rewrite H in H'. inversion H'. subst. exact Hnd.
Qed.
Print Assumptions fasta_unique.

(* the file is the header followed by the rendered rows; each row's sub-sequence is the stated (Python) slice
   of its peptide; the (sequence, label) pairs of the rows are those of the adds that have a segment *)
Theorem rows_slices : forall ops,
  t_file (run_adds ops) = header_text ++ flat_map render_row (rows_of_ops ops) /\
  Forall slice_ok (rows_of_ops ops) /\
  (forall p l, (exists r, In r (rows_of_ops ops) /\ r_seq r = p /\ r_label r = l) <->
               (exists a, In (p, a) ops /\ an_label a = l /\ an_segs a <> [])).
Proof. exact rows_slices_proof. Qed.
Print Assumptions rows_slices.

(* table rows and FASTA carry exactly the same (sequence, header entry) pairs *)
Theorem table_pairs_match_fasta : forall ops, Forall good_op ops ->
  exists recs, write_fasta (run_adds ops) = FastaOk recs /\
  forall p l, (exists r, In r (rows_of_ops ops) /\ r_seq r = p /\ r_label r = l) <->
              (exists ls, In (p, ls) recs /\ In l ls).
Proof. exact table_pairs_proof. Qed.
Print Assumptions table_pairs_match_fasta.

(* why `an_segs <> []` is a hypothesis: an annotation without segments writes no row but still enters the
   index, and the record cannot be read back - write_fasta raises ValueError (reproduced on the real class by
   the malformed stream of the correspondence; no caller produces such an annotation) *)
Theorem empty_annotation_breaks_fasta : forall p l, p <> [] ->
  write_fasta (run_adds [(p, mkAnno l [])]) = FastaErr LoadValueError.
Proof. exact empty_anno_breaks_proof. Qed.
Print Assumptions empty_annotation_breaks_fasta.

(* ---- the filters -------------------------------------------------------------------------------------- *)
(* is_valid accepts  <->  every letter has a mass  /\  not in the pool  /\  min_len <= |p| <= max_len  /\
   mass >= min_mw.   (The code rejects `mass < min_mw`, i.e. the written side's mass test is >=, whereas the
   canonical digest keeps `mass > min_mw`: Digest.keep.)  A letter without a mass - X, *, B, Z, J - makes
   SeqUtils.molecular_weight raise: is_valid = None. *)
Theorem valid_iff : forall wt water pool lim p,
  is_valid wt water pool lim p = Some true <-> Valid wt water pool lim p.
Proof. exact valid_iff_proof. Qed.
Print Assumptions valid_iff.

Theorem valid_raises_iff : forall wt water pool lim p,
  is_valid wt water pool lim p = None <-> valid_letters wt p = false.
Proof. exact valid_raises_proof. Qed.
Print Assumptions valid_raises_iff.

(* obligation on the table regenerated from the installed Biopython on every run: X and * carry no mass *)
Theorem weight_table_excludes_X_and_stop :
  weight_of protein_weights4 X_code = None /\ weight_of protein_weights4 STAR_code = None.
Proof. split; vm_compute; reflexivity. Qed.
Print Assumptions weight_table_excludes_X_and_stop.

(* so a peptide the filter accepts passes every clause of the decider: not canonical, within the limits,
   heavy enough, no X, no stop symbol *)
Theorem valid_excludes_X_and_stop : forall pool lim p,
  is_valid protein_weights4 water4 pool lim p = Some true ->
  peptide_ok protein_weights4 water4 pool lim p = true.
Proof.
  intros pool lim p. apply valid_implies_hygienic; apply weight_table_excludes_X_and_stop.
Qed.
Print Assumptions valid_excludes_X_and_stop.

(* ---- obligations over the filters REGENERATED from the source on every run (Gen/PepFilter.v) ----------
   every construct of both `if ...: return False` chains lies in the translated fragment and both functions
   have the expected shape *)
Theorem filters_known :
  filter_known table_filter && filter_known pool_filter && table_shape_ok && pool_shape_ok = true.
Proof. vm_compute. reflexivity. Qed.
Print Assumptions filters_known.

(* the chain of VariantPeptideTable.is_valid, as translated from the source, is the one Model/PepTable.is_valid
   implements - hence valid_iff and everything below speak about the code's current text *)
Theorem table_filter_is_model : forall wt water pool lim p,
  run_filter wt water pool lim p table_filter = is_valid wt water pool lim p.
Proof.
  intros. change table_filter with reference_filter. apply run_filter_reference.
Qed.
Print Assumptions table_filter_is_model.

(* the three-place agreement, part 1, on the source text: the filter inside VariantPeptidePool.add_peptide
   returns the same verdict as VariantPeptideTable.is_valid on every input (including when it raises) *)
Theorem pool_filter_agree_source : forall wt water pool lim p,
  run_filter wt water pool lim p pool_filter = run_filter wt water pool lim p table_filter.
Proof. intros. reflexivity. Qed.
Print Assumptions pool_filter_agree_source.

(* VariantPeptideTable.is_valid and VariantPeptidePool.add_peptide's filter: same verdict (incl. raising) *)
Theorem pool_filter_agree : forall wt water pool lim p,
  pool_check wt water pool lim p = is_valid wt water pool lim p.
Proof. exact pool_filter_agree_proof. Qed.
Print Assumptions pool_filter_agree.

(* the per-graph filter (is_valid_seq, tests in another order, X tested explicitly) given the same denylist:
   on a peptide not yet accepted and without X it accepts exactly what is_valid accepts, and with all letters
   known the two return the same value *)
Theorem graph_filter_agree : forall wt water accepted deny lim p,
  mem_seq p accepted = false -> memZ X_code p = false ->
  (graph_valid wt water accepted deny lim p = Some true <-> is_valid wt water deny lim p = Some true) /\
  (valid_letters wt p = true -> graph_valid wt water accepted deny lim p = is_valid wt water deny lim p).
Proof. exact graph_filter_agree_proof. Qed.
Print Assumptions graph_filter_agree.

(* ---- the callVariant store as a whole ----------------------------------------------------------------
   `for peptide in peptide_anno: if is_valid(peptide): for a in annos: add_peptide(peptide, a)` over any list
   of (peptide, annotations): the loop aborts iff some peptide has a letter without a mass; otherwise the FASTA
   lists each accepted sequence once, every listed sequence satisfies Valid, the header entries are exactly the
   labels of the accepted annotations, and table rows and FASTA carry the same pairs. *)
Theorem callvariant_store_hygiene : forall wt water pool lim its t,
  (forall p annos a, In (p, annos) its -> In a annos -> good_op (p, a)) ->
  process_items wt water pool lim empty_table its = Some t ->
  exists recs, write_fasta t = FastaOk recs /\
    NoDup (map fst recs) /\
    (forall p, In p (map fst recs) -> Valid wt water pool lim p) /\
    (forall p, In p (map fst recs) <-> exists annos a, In (p, annos) its /\ In a annos /\ Valid wt water pool lim p) /\
    (forall p l, (exists ls, In (p, ls) recs /\ In l ls) <->
                 (exists annos a, In (p, annos) its /\ In a annos /\ an_label a = l /\ Valid wt water pool lim p)) /\
    t_file t = header_text ++ flat_map render_row (rows_of_ops (accepted_ops wt water pool lim its)) /\
    (forall p l, (exists r, In r (rows_of_ops (accepted_ops wt water pool lim its)) /\ r_seq r = p /\ r_label r = l) <->
                 (exists ls, In (p, ls) recs /\ In l ls)).
Proof. exact callvariant_store_proof. Qed.
Print Assumptions callvariant_store_hygiene.

Theorem callvariant_store_aborts_iff : forall wt water pool lim its t,
  process_items wt water pool lim t its = None <-> exists it, In it its /\ valid_letters wt (fst it) = false.
Proof. intros. apply process_items_raises. Qed.
Print Assumptions callvariant_store_aborts_iff.

(* ---- VariantPeptidePool (callNovelORF, callAltTranslation) -------------------------------------------
   after any sequence of add_peptide calls that does not raise: one record per accepted sequence (first-
   acceptance order), accepted = Valid, description = the labels it was added with joined by ' ' in order *)
Theorem vpool_refines_map : forall wt water pool lim ops vp,
  vpool_adds wt water pool lim [] ops = Some vp ->
  let acc := filter (vp_accept wt water pool lim) ops in
  map fst vp = dedup (map fst acc) /\
  NoDup (map fst vp) /\
  (forall p, In p (map fst vp) <-> exists l, In (p, l) ops /\ Valid wt water pool lim p) /\
  (forall p d, In (p, d) vp -> d = join SP (vals_for p acc)).
Proof. exact vpool_refines_map_proof. Qed.
Print Assumptions vpool_refines_map.

(* ---- the decider run on every written FASTA -----------------------------------------------------------
   hygiene_ok pool lim fasta = true  <->  the sentence of C04 about one FASTA: sequences pairwise distinct, none
   in the pool (the pool passed in is Digest.pool, which contains the I->L images: Props/C10.v), each within the
   length limits, with a computable mass >= the minimum, without X and without the stop symbol *)
Theorem hygiene_ok_iff : forall wt water pool lim fasta,
  hygiene_ok wt water pool lim fasta = true <-> Hygienic wt water pool lim fasta.
Proof. exact hygiene_ok_iff_proof. Qed.
Print Assumptions hygiene_ok_iff.

(* ---- the hypotheses are satisfiable by a non-trivial state: four adds, a repeated sequence with a repeated
   and a new label, two segments in one annotation *)
Example good_ops_exist : Forall good_op ex_ops.
Proof. exact ex_ops_good. Qed.
Example good_ops_fasta :
  write_fasta (run_adds ex_ops) =
  FastaOk [ ([65;67;68;69;75], [[84;49;124;83;78;86;45;49;124;49]; [84;51;124;121;124;49]]);
            ([71;72;75], [[84;50;124;120;124;49]]) ].
Proof. exact ex_ops_fasta. Qed.
Example valid_exists :
  is_valid protein_weights4 water4 [[65;67;68;69;76]] (mkLimits 2 5000000 5 25) [65;67;68;69;73;75] = Some true /\
  is_valid protein_weights4 water4 [[65;67;68;69;76]] (mkLimits 2 5000000 5 25) [65;67;68;69;76] = Some false /\
  is_valid protein_weights4 water4 [] (mkLimits 2 5000000 5 25) [65;67;88;69;76] = None.
Proof. repeat split; vm_compute; reflexivity. Qed.

(* The oracle of this property digests with the rule tables regenerated from expasy_rules.py
   (coq/Gen/Expasy.v); they must be the ExPASy reference rules (same obligation as in Props/C10.v),
   otherwise model and implementation would silently follow a changed rule together. *)
Theorem rules_are_expasy_reference : MoPep.Gen.Expasy.site_rules = MoPep.Model.ExpasyRef.reference_rules.
Proof. exact MoPep.Proofs.ExpasyProofs.rules_match_reference_proof. Qed.
Print Assumptions rules_are_expasy_reference.

(* ---- code-level tie (docs/py2coq.md): the BODIES of VariantPeptideTable.is_valid and VariantPeptidePool.add_peptide
        (mass / length / pool chain with its ValueError path, skip_checking, accept-and-merge), translated from /repo's
        current source by harness/translate/py2coq.py into coq/Gen/Py_VariantPeptideTable.v / Py_VariantPeptidePool.v
        on every run, are extensionally equal to PepTable.is_valid / PepTable.vpool_add.  Stronger than
        table_filter_is_model (a mini-language of recognised `if ..: return False` shapes): it is a translation of
        the statements, and it covers add_peptide's acceptance and return value as well. ---- *)
From MoPep Require Gen.Py_VariantPeptideTable Gen.Py_VariantPeptidePool.
From MoPep Require Import Proofs.Py2CoqPepTableProofs.

Theorem code_pep_filters_translated :
  Py_VariantPeptideTable.py_table_is_valid_untranslated = false /\
  Py_VariantPeptidePool.py_pool_add_peptide_untranslated = false.
Proof. vm_compute. split; reflexivity. Qed.
Print Assumptions code_pep_filters_translated.

Theorem code_table_is_valid_is_model : forall wt water pool lim p,
  Py_VariantPeptideTable.py_table_is_valid wt water pool lim p = is_valid wt water pool lim p.
Proof. exact code_table_is_valid_is_model_l. Qed.
Print Assumptions code_table_is_valid_is_model.

Theorem code_pool_add_peptide_is_model : forall wt water pool lim skip vp p label,
  Py_VariantPeptidePool.py_pool_add_peptide wt water pool lim skip vp p label
  = vpool_add wt water pool lim skip vp p label.
Proof. exact code_pool_add_peptide_is_model_l. Qed.
Print Assumptions code_pool_add_peptide_is_model.
