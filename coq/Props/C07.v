(* C07 -- --skip-failed isolates failures; without it failures abort.
   Model: Model/Wrapper.v (call_variant_peptides_wrapper + the CLI loop, parametric in the shape of the
   failure-handling skeleton);  statement: Model/WrapperSpec.v;  proofs: Proofs/WrapperProofs.v.
   [shape_fixed] = the source after proposed_fixes/C07_D4.patch, [shape_orig] = the unchanged tree,
   [source_shape] = what the translator read from the current source (Gen/WrapperShape.v).
   All statements quantify over every list of transcripts, every list of fusion / circRNA units of
   every transcript and every failure set (the u_fail bits), with no bound on any length. *)
From MoPep Require Import Model.Base Model.Wrapper Model.WrapperSpec Proofs.WrapperProofs Gen.WrapperShape.
From MoPep Require Import Model.ParserLoop Proofs.ParserLoopProofs Gen.ParserShape.
Open Scope Z_scope.

(* the current source has one of the modelled shapes: everything as after both repairs, each of the two
   repairs present or absent (fail-closed translator) *)
Theorem source_modelled : shape_known source_shape = true.
Proof. vm_compute. reflexivity. Qed.
Print Assumptions source_modelled.

(* With --skip-failed, for EVERY failure set: the run completes, the FASTA holds exactly the (valid)
   peptides of the non-failing units of the processed transcripts -- nothing of another unit or another
   transcript is removed or added, the main->circRNA denylist dependency is invisible at the level of the
   sequence set --, no sequence twice, and the summary is the projection of the failure set. *)
Theorem skip_isolates : forall sh valid txs, shape_eqb sh shape_fixed = true ->
  exists fasta tl,
    completes (run sh valid true txs) fasta tl /\
    (forall s, In s (keys fasta) <-> reported valid txs s) /\
    NoDup (keys fasta) /\
    tally_spec txs (zlen fasta) tl.
Proof. exact skip_isolates_l. Qed.
Print Assumptions skip_isolates.

(* ... and that output is the output of a run (with or without the flag) on the input from which
   exactly the failing units and the invalid series are absent *)
Theorem skip_equals_removed : forall sh valid txs skip', shape_eqb sh shape_fixed = true ->
  exists f1 t1 f2 t2,
    completes (run sh valid true txs) f1 t1 /\
    completes (run sh valid skip' (without_failures txs)) f2 t2 /\
    same_set (keys f1) (keys f2).
Proof. exact skip_equals_removed_l. Qed.
Print Assumptions skip_equals_removed.

(* Without --skip-failed any failure (a unit of a processed transcript, or an invalid series) ends the
   command with an exception: no FASTA, no summary. *)
Theorem noskip_aborts : forall sh valid txs, shape_eqb sh shape_fixed = true ->
  any_failure txs = true -> aborts (run sh valid false txs).
Proof. exact noskip_aborts_l. Qed.
Print Assumptions noskip_aborts.

(* When nothing fails the flag makes no difference (any shape). *)
Theorem noskip_clean : forall sh valid txs, any_failure txs = false ->
  run sh valid false txs = run sh valid true txs.
Proof. exact noskip_clean_l. Qed.
Print Assumptions noskip_clean.

(* the graphs saved under a circRNA id belong to that circRNA (repaired shape) *)
Theorem graphs_truthful : forall sh t w, shape_eqb sh shape_fixed = true ->
  wrapper sh true t = Ok w -> forall k g, In (k, g) (w_graphs w) -> k = g.
Proof. exact graphs_truthful_l. Qed.
Print Assumptions graphs_truthful.

(* D4: on the faithful model of the UNCHANGED tree skip_isolates is false -- a transcript whose main call
   succeeds and whose only circRNA fails ends the command with UnboundLocalError despite --skip-failed *)
Theorem skip_isolates_refuted :
  exists valid txs, run shape_orig valid true txs = {| r_exc := Some EUnbound; r_fasta := None; r_tally := None |} /\
                    forall fasta tl, ~ completes (run shape_orig valid true txs) fasta tl.
Proof. exact skip_isolates_refuted_l. Qed.
Print Assumptions skip_isolates_refuted.

(* D4, second face: a circRNA failing after a successful one stores the previous circRNA's graph under
   its own id (and silently re-adds the previous peptide map) *)
Theorem graphs_refuted : exists t w, wrapper shape_orig true t = Ok w /\ In (2, 1) (w_graphs w).
Proof. exact graphs_refuted_l. Qed.
Print Assumptions graphs_refuted.

(* the second finding: before C07_acc_invalid.patch an invalid series of a fusion's accepter transcript ends
   the run with ValueError despite --skip-failed *)
Theorem acc_invalid_refuted :
  exists valid txs, run shape_acc_unguarded valid true txs = {| r_exc := Some EInvalid; r_fasta := None; r_tally := None |} /\
                    forall fasta tl, ~ completes (run shape_acc_unguarded valid true txs) fasta tl.
Proof. exact acc_invalid_refuted_l. Qed.
Print Assumptions acc_invalid_refuted.

(* ------------------------------------------------------------------------------------------------------
   The parsers' --skip-failed (parseSTARFusion, parseFusionCatcher, parseArriba, parseVEP): Model/ParserLoop.v.
   A row FAILS when the conversion raises an exception that is not a documented skip exception of the tool
   (row_fails over the documented table doc_fusion / doc_vep).  [modelled_ok sh]: sh is the documented shape
   of the fusion parsers or of parseVEP (after C07_vep_unknown_tx.patch).  All row lists, no bound. *)

(* the record loops of the four parser CLIs, as read from the current source, are modelled shapes: the three
   fusion parsers have the documented shape, parseVEP the documented one or the one before the repair *)
Theorem parser_shapes_modelled :
  (pshape_eqb source_pshape_star shape_fusion || pshape_eqb source_pshape_star shape_fusion_orig) = true /\
  (pshape_eqb source_pshape_fc shape_fusion || pshape_eqb source_pshape_fc shape_fusion_orig) = true /\
  (pshape_eqb source_pshape_arriba shape_fusion || pshape_eqb source_pshape_arriba shape_fusion_orig) = true /\
  (pshape_eqb source_pshape_vep shape_vep || pshape_eqb source_pshape_vep shape_vep_orig) = true.
Proof. vm_compute. repeat split; reflexivity. Qed.
Print Assumptions parser_shapes_modelled.

(* with --skip-failed the run completes; the GVF holds exactly the records of the convertible rows, in order (no
   file when there is none); a logged summary says: rows read, rows converted, and for every other row, in order,
   its documented reason or -- for a failing row -- the tool's catch-all counter; the summary is ALWAYS logged
   (also when nothing is saved); and the same GVF is produced, with or without the flag, from the table without the failing rows *)
Theorem parser_skip_isolates : forall sh rows, modelled_ok sh = true ->
  o_exc (prun sh true rows) = None /\
  gvf_recs (prun sh true rows) = flat_map row_recs rows /\
  (forall tl, o_tally (prun sh true rows) = Some tl ->
     tl = (zlen rows, pcount row_ok rows, flat_map (row_reason (ps_doc sh) (ps_fail_reason sh)) rows)) /\
  o_tally (prun sh true rows) <> None /\
  (forall skip', o_exc (prun sh skip' (nonfail (ps_doc sh) rows)) = None /\
                 gvf_recs (prun sh skip' (nonfail (ps_doc sh) rows)) = gvf_recs (prun sh true rows)).
Proof. exact parser_skip_isolates_l. Qed.
Print Assumptions parser_skip_isolates.

(* without the flag one failing row, in any position, ends the command with the exception: no GVF, no summary *)
Theorem parser_noskip_aborts : forall sh rows, modelled_ok sh = true ->
  existsb (row_fails (ps_doc sh)) rows = true ->
  prun sh false rows = {| o_exc := Some PEConv; o_gvf := None; o_tally := None |}.
Proof. intros sh rows _. apply parser_noskip_aborts_l. Qed.
Print Assumptions parser_noskip_aborts.

Theorem parser_noskip_clean : forall sh rows, existsb (row_fails (ps_doc sh)) rows = false ->
  prun sh false rows = prun sh true rows.
Proof. exact parser_noskip_clean_l. Qed.
Print Assumptions parser_noskip_clean.

(* third finding: parseVEP before C07_vep_unknown_tx.patch -- a skipped record whose transcript id is not in the
   annotation makes the final ranking of the keys raise KeyError after the summary was logged, despite the flag *)
Theorem vep_unknown_tx_refuted :
  exists rows, prun shape_vep_orig true rows = {| o_exc := Some PERank; o_gvf := None; o_tally := Some (2, 1, [6]) |}.
Proof. exact vep_unknown_tx_refuted_l. Qed.
Print Assumptions vep_unknown_tx_refuted.

(* fourth finding: the fusion parsers before C07_fusion_tally_before_return.patch -- with --skip-failed and every row
   failing the run completes but reports nothing (early return before the summary) *)
Theorem fusion_no_tally_refuted :
  exists rows, existsb (row_fails doc_fusion) rows = true /\
               prun shape_fusion_orig true rows = {| o_exc := None; o_gvf := None; o_tally := None |}.
Proof. exact fusion_no_tally_refuted_l. Qed.
Print Assumptions fusion_no_tally_refuted.

Example parser_hyp_sat : modelled_ok shape_fusion = true /\ modelled_ok shape_vep = true /\
  existsb (row_fails doc_fusion) [POk [1]; PExc [10; 14; 20] false; PExc [1; 20] false] = true /\
  row_fails doc_fusion (PExc [1; 20] false) = false.
Proof. vm_compute. repeat split; reflexivity. Qed.

(* the hypotheses are satisfiable by non-trivial inputs *)
Example noskip_hyp_sat : any_failure [d4_tx] = true /\ shape_eqb shape_fixed shape_fixed = true.
Proof. vm_compute. split; reflexivity. Qed.
Example skip_nontrivial : reported (fun _ => true) [d4_tx] [65; 75] /\
  exists fasta tl, completes (run shape_fixed (fun _ => true) true [d4_tx]) fasta tl /\ keys fasta = [[65; 75]] /\ f_circ tl = 1.
Proof.
  split.
  - split; [reflexivity|]. exists d4_tx, (d4_unit 1 false). cbn. tauto.
  - eexists. eexists. split; [vm_compute; reflexivity|]. split; reflexivity.
Qed.

(* ---- code-level tie (docs/py2coq.md): the CONTROL FLOW of call_variant_peptides_wrapper -- the three `try: .. except:`
        regions with their success flag, the skip_failed / re-raise branches, the `continue` of the circRNA handler, the
        denylist update between the fusion and the circRNA loop, the order of the add_peptide_anno calls -- translated
        from /repo's current source by harness/translate/py2coq.py into coq/Gen/Py_wrapper.v on every run, is
        extensionally equal to Wrapper.wrapper for the repaired shape (projected on peptide_anno and success_flags),
        for every skip flag, main unit, fusion and circRNA unit list.  Stronger than the shape flags of
        Gen/WrapperShape.v: it is about the statements, not about eleven recognised features of them. ---- *)
From MoPep Require Gen.Py_wrapper.
From MoPep Require Import Proofs.Py2CoqWrapperProofs.

Theorem code_wrapper_translated : Py_wrapper.py_wrapper_untranslated = false.
Proof. vm_compute. reflexivity. Qed.
Print Assumptions code_wrapper_translated.

Theorem code_wrapper_is_model : forall skip has_tx inner um fs cs,
  Py_wrapper.py_wrapper skip has_tx inner um fs cs
  = match wrapper shape_fixed skip
            {| t_id := 0; t_invalid := false; t_empty := false; t_acc_invalid := false;
               t_main := if has_tx && inner then Some um else None; t_fusions := fs; t_circs := cs |} with
    | Ok st => Ok (w_anno st, w_flags st)
    | Raise e => Raise e
    end.
Proof. exact code_wrapper_is_model_l. Qed.
Print Assumptions code_wrapper_is_model.
