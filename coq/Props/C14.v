(* C14 - parseVEP / parseREDItools preserve the genomic event.
   Property theorems only; proofs are in Proofs/VepProofs.v, the model in Model/Vep.v.

   Reading guide.  [convert fx g t chrom e] is the model of VEPRecord.convert_to_variant_record
   ([fx = false]: the code as it stands; [fx = true]: with proposed_fixes/C14_vep_ins_gene_start.patch).
   A genomic event [ev] replaces chrom[p,q) by s; [vep_of ev] is the VEP line VEP writes for it.
   [ev_ok] admits every event except the empty one and the two-base substitution (the property speaks
   of substitutions of three or more bases): SNV, deletion, insertion, substitution >= 3 and the
   single-position insertion forms all satisfy it (kinds_are_ok below).
   [redi_loop mode ...] is the model of REDItoolsRecord.convert_to_variant_records ([mode = 0]: the
   code as it stands (D10); 1: re-raise, proposed_fixes/C14_D10.patch; 2: skip). *)
From Coq Require Import ZArith List Bool Lia.
From MoPep Require Import Model.Base Model.Vep Proofs.VepProofs.
Import ListNotations.
Open Scope Z_scope.

(* ---------------------------------------------------------------- VEP *)

(* every accepted event: REF is the gene sequence at the record's position and applying the record to the
   gene sequence gives the gene re-extracted from the edited chromosome (gene interval adjusted) *)
Theorem vep_preserves_event :
  forall g t chrom ev r,
    wf_gene g chrom -> ev_ok ev ->
    convert true g t chrom (vep_of ev) = Ok r ->
    gene_seq g chrom = Ok (gene_of g chrom) /\
    0 <= vr_start r /\ vr_end r <= zlen (gene_of g chrom) /\
    vr_end r = vr_start r + zlen (vr_ref r) /\
    vr_ref r = slice (gene_of g chrom) (vr_start r) (vr_end r) /\
    apply_gene (gene_of g chrom) r = gene_of (gene_after g ev) (apply_genomic chrom ev).
Proof. intros g t chrom ev r W E H. exact (vep_main true g t chrom ev r W E H (or_introl eq_refl)). Qed.
Print Assumptions vep_preserves_event.

(* the four kinds named by the property (and the single-position insertion forms) are covered *)
Theorem kinds_are_ok :
  forall ev, 0 <= e_p ev -> is_snv ev \/ is_del ev \/ is_ins ev \/ is_sub ev \/ is_ins1 ev -> ev_ok ev.
Proof. exact kinds_ev_ok. Qed.
Print Assumptions kinds_are_ok.

(* FULL statement for the code as it stands would be vep_preserves_event with [convert false]; it is FALSE
   (vep_current_code_refuted).  Proved instead: it holds for every accepted record whose start is not
   negative, i.e. the only failure is the wrap-around of finding vep_ins_gene_start. *)
Theorem vep_preserves_event_current_code_partial :
  forall g t chrom ev r,
    wf_gene g chrom -> ev_ok ev ->
    convert false g t chrom (vep_of ev) = Ok r ->
    0 <= vr_start r ->
    vr_ref r = slice (gene_of g chrom) (vr_start r) (vr_end r) /\
    vr_end r = vr_start r + zlen (vr_ref r) /\ vr_end r <= zlen (gene_of g chrom) /\
    apply_gene (gene_of g chrom) r = gene_of (gene_after g ev) (apply_genomic chrom ev).
Proof.
  intros g t chrom ev r W E H Hs.
  destruct (vep_main false g t chrom ev r W E H (or_intror Hs)) as (_ & _ & A & B & C & D). auto.
Qed.
Print Assumptions vep_preserves_event_current_code_partial.

Definition w_chrom : seq := [71; 65; 84; 84; 65; 67; 65; 71; 71; 67; 67; 84; 84; 65; 65; 67; 67; 71; 71; 84; 84; 65; 67; 71; 84; 65; 67; 71; 65; 84; 67; 71; 65; 84; 67; 71; 71; 67; 84; 65; 71; 67; 84; 65; 65; 67; 71; 84; 84; 65; 71; 67; 67; 71; 65; 84; 84; 65; 67; 65; 71; 67; 65; 84; 67; 71; 71; 65; 84; 67; 67; 65].
Definition w_gene := mkGene 1 10 60.
Definition w_tx := mkTx 10 60 true.
Definition w_ev := mkGev 10 11 [84; 84; 67].      (* C -> TTC written on the first base of the gene *)

(* the code as it stands: an accepted in-scope event whose record sits at gene position -1 and whose REF is
   not the gene sequence at its position (it is the LAST base of the gene) *)
Theorem vep_current_code_refuted :
  exists g t chrom ev r,
    wf_gene g chrom /\ wf_tx g t /\ ev_ok ev /\ is_ins1 ev /\
    convert false g t chrom (vep_of ev) = Ok r /\
    vr_start r = -1 /\
    vr_ref r <> slice (gene_of g chrom) (vr_start r) (vr_end r) /\
    apply_gene (gene_of g chrom) r <> gene_of (gene_after g ev) (apply_genomic chrom ev).
Proof.
  exists w_gene, w_tx, w_chrom, w_ev.
  eexists. split; [|split; [|split; [|split; [|split; [vm_compute; reflexivity|]]]]].
  - unfold wf_gene, w_gene, w_chrom; cbn; lia.
  - unfold wf_tx; cbn; lia.
  - unfold ev_ok; cbn. repeat split; try lia; intros; discriminate.
  - unfold is_ins1; cbn; lia.
  - split; [reflexivity|]. split; vm_compute; discriminate.
Qed.
Print Assumptions vep_current_code_refuted.

(* events touching / leaving the transcript are rejected: an accepted event has its footprint (for an
   insertion: its two flanking bases) inside the transcript, and without cds_start_NF it does not
   contain the first transcribed base *)
Theorem vep_boundary_rejected :
  forall fx g t chrom ev,
    wf_gene g chrom -> ev_ok ev ->
    ~ (t_start t <= foot_lo ev /\ foot_hi ev <= t_end t /\
       (t_nf t = false ->
          (g_strand g = 1 -> t_start t < foot_lo ev) /\ (g_strand g = -1 -> foot_hi ev < t_end t))) ->
    forall r, convert fx g t chrom (vep_of ev) <> Ok r.
Proof. intros fx g t chrom ev W E N r H. apply N. exact (vep_boundary fx g t chrom ev r W E H). Qed.
Print Assumptions vep_boundary_rejected.

(* ... and nothing else is rejected: the four kinds are accepted whenever they lie inside the transcript
   past its first base (so the theorems above are not vacuous) *)
Theorem vep_interior_accepted :
  forall fx g t chrom ev,
    wf_gene g chrom -> wf_tx g t -> 0 <= e_p ev ->
    is_snv ev \/ is_del ev \/ is_ins ev \/ is_sub ev ->
    (g_strand g = 1 /\ t_start t < foot_lo ev /\ foot_hi ev <= t_end t) \/
    (g_strand g = -1 /\ t_start t <= foot_lo ev /\ foot_hi ev < t_end t) ->
    exists r, convert fx g t chrom (vep_of ev) = Ok r.
Proof. exact vep_accepts. Qed.
Print Assumptions vep_interior_accepted.

(* non-trivial instances: a 3-base deletion and a 2-base insertion on a minus-strand gene *)
Example vep_example_del_minus :
  convert true (mkGene (-1) 10 60) (mkTx 12 58 false) w_chrom (vep_of (mkGev 20 23 [])) =
  Ok (mkVrec 36 40 [67; 71; 84; 65] [67] 2).
Proof. vm_compute. reflexivity. Qed.
Example vep_example_ins_minus :
  convert true (mkGene (-1) 10 60) (mkTx 12 58 false) w_chrom (vep_of (mkGev 20 20 [65; 67])) =
  Ok (mkVrec 39 40 [65] [65; 71; 84] 1).
Proof. vm_compute. reflexivity. Qed.

(* ---------------------------------------------------------------- REDItools *)

(* thresholds are applied exactly: the substitutions kept are precisely those of the row that satisfy the
   RNA coverage, DNA coverage (unless -1), alt read count and alt frequency (fnum/fden) bounds *)
Theorem redi_threshold_exact :
  forall th r vs, get_valid_subs th r = Some vs ->
  forall rf al, In (rf, al) vs <-> In (rf, al) (r_subs r) /\ site_ok th r /\ alt_ok th r al.
Proof. exact redi_threshold_exact_l. Qed.
Print Assumptions redi_threshold_exact.

(* every emitted record: belongs to a listed transcript, sits at the gene coordinate of the genomic site
   (which addresses the same base of the gene sequence), carries an accepted substitution, and - once the
   non-intron error is no longer swallowed (mode <> 0) - the site is exonic in that transcript *)
Theorem redi_position :
  forall mode th r txs recs,
    redi_loop mode th r txs = Ok recs ->
    forall id pos rf al, In (id, pos, rf, al) recs ->
    exists x, In x txs /\ x_id x = id /\
      g_start (x_gene x) <= r_pos r - 1 < g_end (x_gene x) /\
      ((g_strand (x_gene x) = 1 /\ pos = (r_pos r - 1) - g_start (x_gene x)) \/
       (g_strand (x_gene x) = -1 /\ pos = g_end (x_gene x) - 1 - (r_pos r - 1))) /\
      (forall chrom, wf_gene (x_gene x) chrom ->
         slice (gene_of (x_gene x) chrom) pos (pos + 1) =
         (if g_strand (x_gene x) =? 1 then slice chrom (r_pos r - 1) (r_pos r)
          else revcomp (slice chrom (r_pos r - 1) (r_pos r)))) /\
      In (rf, al) (r_subs r) /\ site_ok th r /\ alt_ok th r al /\
      (mode <> 0 -> wf_exons (x_exons x) -> exonic (x_exons x) (r_pos r - 1)).
Proof. exact redi_position_l. Qed.
Print Assumptions redi_position.

(* the code as it stands (mode 0, D10): a record is emitted for a transcript in which the site is not exonic *)
Theorem redi_exonic_current_code_refuted :
  exists th r txs recs id pos rf al,
    redi_loop 0 th r txs = Ok recs /\ In (id, pos, rf, al) recs /\
    forall x, In x txs -> wf_exons (x_exons x) /\ ~ exonic (x_exons x) (r_pos r - 1).
Proof.
  exists (mkThr 1 1 10 1 (-1)), (mkRedi 13 [5; 5; 5; 5] [(84, 71)] (Some (-1))),
         [mkRtx 0 (mkGene 1 10 60) [(20, 30); (40, 50)]].
  eexists. exists 0, 2, 84, 71.
  split; [vm_compute; reflexivity|]. split; [left; reflexivity|].
  intros x [<-|[]]. cbn [x_exons r_pos]. split.
  - intros s e [[= <- <-]|[[= <- <-]|[]]]; lia.
  - intros (s & e & [[= <- <-]|[[= <- <-]|[]]] & Hb); lia.
Qed.
Print Assumptions redi_exonic_current_code_refuted.

(* non-trivial instance: a site exonic in one of two listed transcripts, thresholds at equality *)
Example redi_example :
  redi_loop 1 (mkThr 3 1 10 10 10) (mkRedi 25 [27; 0; 3; 0] [(65, 71)] (Some 10))
     [mkRtx 0 (mkGene (-1) 10 60) [(10, 30); (40, 60)]; mkRtx 1 (mkGene (-1) 10 60) [(10, 20); (40, 60)]]
  = Ok [(0, 35, 65, 71)].
Proof. vm_compute. reflexivity. Qed.

(* ---- code-level tie (docs/py2coq.md): the BODY of REDItoolsRecord.get_valid_subs (RNA coverage, DNA coverage with
        the -1 / None cases, per-substitution read count and frequency thresholds, KeyError / IndexError /
        ZeroDivisionError paths), translated from /repo's current source by harness/translate/py2coq.py into
        coq/Gen/Py_REDItoolsParser.v on every run, is extensionally equal to the model function. ---- *)
From MoPep Require Gen.Py_REDItoolsParser.
From MoPep Require Import Proofs.Py2CoqVepProofs.

Theorem code_get_valid_subs_translated : Py_REDItoolsParser.py_get_valid_subs_untranslated = false.
Proof. vm_compute. reflexivity. Qed.
Print Assumptions code_get_valid_subs_translated.

Theorem code_get_valid_subs_is_model : forall th r,
  Py_REDItoolsParser.py_get_valid_subs th r = get_valid_subs th r.
Proof. exact code_get_valid_subs_is_model_l. Qed.
Print Assumptions code_get_valid_subs_is_model.

(* the arms of VEPRecord.convert_to_variant_record after the boundary checks (deletion with / without an upstream base,
   strand flip of the allele, end- / start-inclusive single-position insertion, SNV, two-position insertion,
   substitution, the SNV / INDEL / MNV decision and the location checks), translated from the source on every run
   (coq/Gen/Py_VEPParser.v), are Vep.convert_core of the repaired code (fx = true) on the strand-corrected allele *)
From MoPep Require Gen.Py_VEPParser.
From MoPep Require Import Proofs.Py2CoqVepArmsProofs.

Theorem code_vep_convert_core_translated : Py_VEPParser.py_vep_convert_core_untranslated = false.
Proof. vm_compute. reflexivity. Qed.
Print Assumptions code_vep_convert_core_translated.

Theorem code_vep_convert_core_is_model : forall strand sq as1 ae2 ts allele0,
  Py_VEPParser.py_vep_convert_core strand sq as1 ae2 ts allele0
  = convert_core true sq as1 ae2 ts
      (match allele0 with None => None | Some al0 => Some (if strand =? -1 then revcomp al0 else al0) end).
Proof. exact code_vep_convert_core_is_model_l. Qed.
Print Assumptions code_vep_convert_core_is_model.

(* the whole of convert_to_variant_record after the parsing of the Location column: gene sequence, the four
   genomic -> gene conversions, transcript bounds, the strand swap of the interval, the start / stop site checks and
   the arms above -- for every gene, transcript, chromosome and VEP row *)
Theorem code_vep_convert_translated : Py_VEPParser.py_vep_convert_untranslated = false.
Proof. vm_compute. reflexivity. Qed.
Print Assumptions code_vep_convert_translated.

Theorem code_vep_convert_is_model : forall g t chrom e,
  Py_VEPParser.py_vep_convert g t chrom e = convert true g t chrom e.
Proof. exact code_vep_convert_is_model_l. Qed.
Print Assumptions code_vep_convert_is_model.

(* the per-transcript loop of REDItoolsRecord.convert_to_variant_records (try / `except ValueError as e` around
   get_transcript_index: intron -> next transcript, any other ValueError re-raised; gene coordinate; get_valid_subs;
   one record per substitution), translated from the source on every run, is Vep.redi_loop in mode 1 (the repaired
   behaviour, D10): reverting to "swallow and emit" breaks this equality *)
Theorem code_redi_convert_translated : Py_REDItoolsParser.py_redi_convert_untranslated = false.
Proof. vm_compute. reflexivity. Qed.
Print Assumptions code_redi_convert_translated.

Theorem code_redi_convert_is_model : forall th r txs,
  Py_REDItoolsParser.py_redi_convert th r txs = redi_loop 1 th r txs.
Proof. exact code_redi_convert_is_model_l. Qed.
Print Assumptions code_redi_convert_is_model.
