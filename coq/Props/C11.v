(* C11 -- Reference model: coordinates and sequences are mutually consistent.
   Property theorems only; proofs are in Proofs/AnnoProofs.v and Proofs/PtrCacheProofs.v.
   Models: Model/Anno.v (coordinate conversions, sequences, ORF, Sec), Model/PtrCache.v (pointer cache).
   All statements are for ALL well-formed exon lists (boolean predicate `wf`: non-empty, first start >= 0,
   every exon non-empty, consecutive exons separated by >= 1 base, ascending), both strands. *)
From Coq Require Import ZArith List Bool Lia.
From MoPep Require Import Model.Base Model.Anno Model.PtrCache Model.GtfPtr Gen.AnnoConst
                          Proofs.AnnoProofs Proofs.PtrCacheProofs Proofs.GtfPtrProofs.
Import ListNotations.
Open Scope Z_scope.

(* the hypotheses are satisfiable by non-trivial states *)
Example wf_example : wf [(10, 20); (21, 22); (30, 40)] = true /\ strand_ok (-1) /\
                     exonic [(10, 20); (21, 22); (30, 40)] 21 = true /\ exonic [(10, 20); (21, 22); (30, 40)] 20 = false.
Proof. vm_compute. repeat split; auto. Qed.

(* regenerated constants: translator understood the source; cache sizes are large enough for the invariant *)
Theorem anno_constants_ok : anno_const_ok = true /\ 1 <= gene_cache_size /\ 1 <= tx_cache_size.
Proof. vm_compute. repeat split; discriminate. Qed.
Print Assumptions anno_constants_ok.

(* transcript -> genomic -> transcript is the identity on [0, len) and lands on an exonic position *)
Theorem tx2g_g2tx : forall st ex i, wf ex = true -> strand_ok st -> 0 <= i < tx_len ex ->
  exists g, tx2g st ex i = Ok g /\ exonic ex g = true /\ g2tx st ex g = Ok i.
Proof. exact tx2g_g2tx_l. Qed.
Print Assumptions tx2g_g2tx.

(* genomic -> transcript -> genomic is the identity on exonic positions *)
Theorem g2tx_tx2g : forall st ex g, wf ex = true -> strand_ok st -> exonic ex g = true ->
  exists i, g2tx st ex g = Ok i /\ 0 <= i < tx_len ex /\ tx2g st ex i = Ok g.
Proof. exact g2tx_tx2g_l. Qed.
Print Assumptions g2tx_tx2g.

(* every non-exonic position is rejected, never mapped to a number: "intron" error inside the
   transcript's span, "out of range" error outside *)
Theorem g2tx_intron : forall st ex g, wf ex = true -> strand_ok st -> exonic ex g = false ->
  g2tx st ex g = if (first_start ex <=? g) && (g <? last_end ex) then Err EIntron else Err ERange.
Proof. exact g2tx_reject_l. Qed.
Print Assumptions g2tx_intron.

(* gene <-> genomic: mutually inverse on the gene, positions outside the gene rejected *)
Theorem gene_genomic_inv : forall st gs ge, strand_ok st ->
  (forall g, gs <= g < ge ->
     exists i, g2gene st gs ge g = Ok i /\ 0 <= i < ge - gs /\ gene2g st gs ge i = Ok g) /\
  (forall i, 0 <= i < ge - gs ->
     exists g, gene2g st gs ge i = Ok g /\ gs <= g < ge /\ g2gene st gs ge g = Ok i) /\
  (forall g, ~ (gs <= g < ge) -> g2gene st gs ge g = Err ERange).
Proof. exact gene_genomic_inv_l. Qed.
Print Assumptions gene_genomic_inv.

(* gene -> transcript agrees with gene -> genomic followed by the inverse of transcript -> genomic;
   gene positions that are intronic in the transcript are rejected *)
Theorem gene2tx_agrees : forall gst gs ge tst ex i g, wf ex = true -> strand_ok tst ->
  gene2g gst gs ge i = Ok g ->
  (exonic ex g = true ->
     exists j, gene2tx gst gs ge true tst ex i = Ok j /\ tx2g tst ex j = Ok g) /\
  (exonic ex g = false -> exists e, gene2tx gst gs ge true tst ex i = Err e).
Proof. exact gene2tx_l. Qed.
Print Assumptions gene2tx_agrees.

(* the i-th letter of the transcript sequence is the strand-corrected genome letter at tx2g i
   (tbl is any complement table; the oracle uses the one regenerated from Biopython) *)
Theorem tx_seq_nth : forall tbl st ex chrom i, wf ex = true -> strand_ok st -> last_end ex <= zlen chrom ->
  0 <= i < tx_len ex ->
  exists sq g c, tx_seq tbl st ex chrom = Ok sq /\ zlen sq = tx_len ex /\
                 tx2g st ex i = Ok g /\ exonic ex g = true /\ nthZ chrom g = Some c /\
                 nthZ sq i = Some (if st =? -1 then comp tbl c else c) /\
                 nthZ sq i = strand_base tbl st chrom g.
Proof. exact tx_seq_nth_l. Qed.
Print Assumptions tx_seq_nth.

Theorem gene_seq_nth : forall tbl st gs ge chrom i, strand_ok st -> 0 <= gs -> gs <= ge -> ge <= zlen chrom ->
  0 <= i < ge - gs ->
  exists sq g c, gene_seq tbl st gs ge chrom = Ok sq /\ zlen sq = ge - gs /\
                 gene2g st gs ge i = Ok g /\ nthZ chrom g = Some c /\
                 nthZ sq i = Some (if st =? -1 then comp tbl c else c).
Proof. exact gene_seq_nth_l. Qed.
Print Assumptions gene_seq_nth.

(* get_cdna_sequence: the i-th letter of the CDS sequence is the strand-corrected genome letter at the
   i-th CDS position (transcript -> genomic conversion over the CDS segments), both strands, any number
   of segments; the attached reference start is the ORF start index *)
Theorem cdna_seq_nth : forall tbl st ex cs chrom f i, wf (cds_segments cs) = true -> strand_ok st ->
  last_end (cds_segments cs) <= zlen chrom -> 0 <= i < tx_len (cds_segments cs) ->
  cds_start_index st ex cs = Ok f ->
  exists sq g c, cdna_sequence tbl st ex cs chrom = Ok (sq, f) /\ zlen sq = tx_len (cds_segments cs) /\
                 tx2g st (cds_segments cs) i = Ok g /\ exonic (cds_segments cs) g = true /\
                 nthZ chrom g = Some c /\ nthZ sq i = Some (if st =? -1 then comp tbl c else c).
Proof. exact cdna_seq_nth_l. Qed.
Print Assumptions cdna_seq_nth.

(* ORF start = transcript image of the first coding base of the CDS features + frame *)
Theorem orf_start_agrees_plus : forall ex c0 cs f, wf ex = true -> c_frame c0 = Some f ->
  exonic ex (c_start c0) = true ->
  exists j, g2tx 1 ex (c_start c0) = Ok j /\ cds_start_index 1 ex (c0 :: cs) = Ok (j + f).
Proof. exact orf_start_plus_l. Qed.
Print Assumptions orf_start_agrees_plus.

Theorem orf_start_agrees_minus : forall ex cs cN, wf ex = true -> exonic ex (c_end cN - 1) = true ->
  exists j, g2tx (-1) ex (c_end cN - 1) = Ok j /\
            cds_start_index (-1) ex (cs ++ [cN]) = Ok (j + match c_frame cN with Some f => f | None => 0 end).
Proof. exact orf_start_minus_l. Qed.
Print Assumptions orf_start_agrees_minus.

(* ORF end: the largest index <= boundary in frame with the start, where the boundary is the
   transcript image of the first 3'UTR base (or the transcript length when there is no 3'UTR) *)
Theorem orf_end_in_frame : forall e st,
  frame_floor e st <= e < frame_floor e st + 3 /\ (frame_floor e st - st) mod 3 = 0.
Proof. exact frame_floor_spec. Qed.
Print Assumptions orf_end_in_frame.

Theorem orf_end_agrees : forall st ex three n start, wf ex = true -> strand_ok st ->
  match three with
  | [] => cds_end_index st ex three n start = Ok (frame_floor n start)
  | u :: t =>
      let p := if st =? 1 then fst (loc_min u t) else snd (loc_max u t) - 1 in
      exonic ex p = true ->
      exists j, g2tx st ex p = Ok j /\ 0 <= j < tx_len ex /\ tx2g st ex j = Ok p /\
                cds_end_index st ex three n start = Ok (frame_floor j start)
  end.
Proof. exact orf_end_l. Qed.
Print Assumptions orf_end_agrees.

(* a Selenocysteine record inside one exon maps to a transcript interval of the same length whose
   start is the transcript image of its strand-wise first base *)
Theorem sec_agrees : forall st ex xs xe s e, wf ex = true -> strand_ok st -> In (xs, xe) ex ->
  xs <= s -> s < e -> e <= xe ->
  exists a, sec_loc st ex (s, e, st) = Ok (a, a + (e - s)) /\ 0 <= a /\ a + (e - s) <= tx_len ex /\
            tx2g st ex a = Ok (if st =? 1 then s else e - 1).
Proof. exact sec_agrees_l. Qed.
Print Assumptions sec_agrees.

(* ---- pointer cache (GenePointerDict / TranscriptPointerDict.__getitem__ as written) ---- *)
Example cache_state_example :
  let load := load_of [(1, 101); (2, 102); (3, 103)] in
  let s := fst (run (get 2 load) empty [1; 2; 3; 1]) in
  cache_inv 2 s = true /\ dq s = [1; 3] /\ cache s <> [] /\ Forall (fun k => load k <> None) [1; 2; 3; 1].
Proof. vm_compute. repeat split; try discriminate. repeat constructor; discriminate. Qed.

(* any history of accesses with VALID keys, from any state satisfying the invariant: the invariant
   (deque and cache have the same key set, no duplicates, size <= limit) is preserved, cached values
   stay those of the stateless loader, and every access returns what the loader returns *)
Theorem cache_inv_preserved : forall limit load s ks,
  1 <= limit -> cache_inv limit s = true -> cache_sound load s ->
  Forall (fun k => load k <> None) ks ->
  cache_inv limit (fst (run (get limit load) s ks)) = true /\
  cache_sound load (fst (run (get limit load) s ks)) /\
  snd (run (get limit load) s ks) = map (spec_of load) ks.
Proof. exact cache_history_l. Qed.
Print Assumptions cache_inv_preserved.

Theorem cache_empty_ok : forall load,
  cache_inv gene_cache_size empty = true /\ cache_inv tx_cache_size empty = true /\ cache_sound load empty.
Proof. intro load. split; [vm_compute; reflexivity|]. split; [vm_compute; reflexivity | apply empty_sound]. Qed.
Print Assumptions cache_empty_ok.

(* D9: with an UNKNOWN key in the history the code as written breaks the invariant, and a later
   access with a VALID key raises KeyError.  Witness: one unknown key (-1), then `limit` valid keys. *)
Theorem cache_invalid_key_refuted :
  exists (load : Z -> option Z) (ks : list Z) (k : Z),
    load k <> None /\
    snd (get tx_cache_size load (fst (run (get tx_cache_size load) empty ks)) k) = RKeyEvict /\
    cache_inv tx_cache_size (fst (run (get tx_cache_size load) empty ks)) = false.
Proof.
  exists (fun k => if 0 <=? k then Some k else None), (-1 :: range_from 1 (Z.to_nat tx_cache_size - 1)), tx_cache_size.
  vm_compute. repeat split; discriminate.
Qed.
Print Assumptions cache_invalid_key_refuted.

(* the proposed repair (resolve and load before touching the deque): ANY key sequence, valid or
   not, preserves the invariant and every access returns exactly what the stateless loader gives *)
Theorem cache_fixed_any_keys : forall limit load s ks,
  1 <= limit -> cache_inv limit s = true -> cache_sound load s ->
  cache_inv limit (fst (run (get_fixed limit load) s ks)) = true /\
  cache_sound load (fst (run (get_fixed limit load) s ks)) /\
  snd (run (get_fixed limit load) s ks) = map (spec_of load) ks.
Proof. exact cache_fixed_history_l. Qed.
Print Assumptions cache_fixed_any_keys.

(* ---- byte-range pointers (GTFPointer.iterate_pointer / *Pointer.load) ---- *)
(* a header comment holding a 2-byte character, a gene line, a comment between entities, one transcript
   block of two records (one with a 3-byte character): offsets are BYTE offsets *)
Example pointer_example :
  let items := [IComment [35; 195; 152; 10]; IGene 1 [103; 10]; IComment [35; 10];
                IBlock 7 [116; 226; 130; 172; 10] [[101; 10]]] in
  iterate (flat items) = [mkPtr true 1 4 6 [7]; mkPtr false 7 8 15 []] /\ NoDup (tids items).
Proof. vm_compute. split; [reflexivity | repeat constructor; intros []]. Qed.

(* in a file whose entities are contiguous (comment lines anywhere BETWEEN entities, transcript ids not
   repeated in a later block) the pointer of a transcript block starts at the sum of the byte lengths of
   all preceding lines, ends after the block's bytes, is yielded unchanged, and loading that byte range
   returns exactly the block's lines *)
Theorem pointer_block : forall pre t b0 bs post,
  NoDup (tids (pre ++ IBlock t b0 bs :: post)) ->
  let file := flat (pre ++ IBlock t b0 bs :: post) in
  let off := zlen (bytes_of (flat pre)) in
  let p := mkPtr false t off (off + zlen (concat (b0 :: bs))) [] in
  In p (iterate file) /\ load_range file p = concat (b0 :: bs).
Proof. exact pointer_block_l. Qed.
Print Assumptions pointer_block.

(* same for a gene line, for ANY file (no precondition) *)
Theorem pointer_gene : forall pre g b post,
  let file := flat (pre ++ IGene g b :: post) in
  let off := zlen (bytes_of (flat pre)) in
  exists txs, In (mkPtr true g off (off + zlen b) txs) (iterate file) /\
              load_range file (mkPtr true g off (off + zlen b) txs) = b.
Proof. exact pointer_gene_l. Qed.
Print Assumptions pointer_gene.

(* outside the precondition: a comment line INSIDE a transcript block is part of the loaded range
   (the text parser skips it, *Pointer.load does not) *)
Theorem pointer_comment_inside_refuted :
  exists ls p, In p (iterate ls) /\ p_key p = 7 /\ load_range ls p <> [116; 10; 101; 10] /\
               load_range ls p = [116; 10; 35; 10; 101; 10].
Proof.
  exists [([116; 10], LRec 7); ([35; 10], LComment); ([101; 10], LRec 7)], (mkPtr false 7 0 6 []).
  vm_compute. repeat split; auto. discriminate.
Qed.
Print Assumptions pointer_comment_inside_refuted.

(* ---- boundary of the claims (behaviour of the code as written outside the hypotheses) ---- *)
(* a negative transcript index is not rejected: it is mapped to a position outside the transcript *)
Theorem tx2g_negative_refuted :
  exists ex i g, wf ex = true /\ i < 0 /\ tx2g 1 ex i = Ok g /\ exonic ex g = false /\ g2tx 1 ex g = Err ERange.
Proof. exists [(10, 20); (30, 40)], (-1), 9. vm_compute. repeat split; auto. Qed.
Print Assumptions tx2g_negative_refuted.

(* book-ended exons (no intronic base between them) are outside `wf`.  BEFORE fix c35675e the plus arm
   (g2tx_plus_old) rejected the first base of the second exon as intronic although it is exonic; the
   repaired arm and the minus arm map it (was finding C11-bookend-plus) *)
Theorem g2tx_abutting_refuted :
  exists ex g, wf ex = false /\ exonic ex g = true /\ g2tx_plus_old ex g 0 = Err EIntron /\
               g2tx 1 ex g = Ok 10 /\ tx2g 1 ex 10 = Ok g /\ g2tx (-1) ex g = Ok 9.
Proof. exists [(10, 20); (20, 30)], 20. vm_compute. repeat split; auto. Qed.
Print Assumptions g2tx_abutting_refuted.

(* ---- code-level tie (docs/py2coq.md): the function BODIES translated from /repo's current source by
        harness/translate/py2coq.py (coq/Gen/Py_*.v, regenerated on every run) are extensionally equal to
        the hand-written model functions the theorems above are about -- for ALL arguments, no
        well-formedness hypothesis.  A semantic edit of one of these Python functions breaks its equality. ---- *)
From MoPep Require Gen.Py_TranscriptAnnotationModel Gen.Py_GenomicAnnotation.
From MoPep Require Import Proofs.Py2CoqProofs.

(* every target function was inside the translator's subset (otherwise a stub is emitted and this fails) *)
Theorem code_functions_translated :
  Py_TranscriptAnnotationModel.get_transcript_index_untranslated = false /\
  Py_TranscriptAnnotationModel.get_cds_start_index_untranslated = false /\
  Py_GenomicAnnotation.coordinate_transcript_to_genomic_untranslated = false /\
  Py_GenomicAnnotation.coordinate_genomic_to_gene_untranslated = false /\
  Py_GenomicAnnotation.coordinate_gene_to_genomic_untranslated = false /\
  Py_TranscriptAnnotationModel.is_exonic_untranslated = false /\
  Py_GenomicAnnotation.coordinate_gene_to_transcript_untranslated = false.
Proof. vm_compute. repeat split. Qed.
Print Assumptions code_functions_translated.

(* TranscriptAnnotationModel.get_transcript_index (both strand arms, all error paths) *)
Theorem code_get_transcript_index_is_model : forall st ex g,
  Py_TranscriptAnnotationModel.get_transcript_index st ex g = g2tx st ex g.
Proof. exact code_get_transcript_index_is_model_l. Qed.
Print Assumptions code_get_transcript_index_is_model.

(* GenomicAnnotation.coordinate_transcript_to_genomic *)
Theorem code_coordinate_transcript_to_genomic_is_model : forall st ex i,
  Py_GenomicAnnotation.coordinate_transcript_to_genomic st ex i = tx2g st ex i.
Proof. exact code_coordinate_transcript_to_genomic_is_model_l. Qed.
Print Assumptions code_coordinate_transcript_to_genomic_is_model.

(* GenomicAnnotation.coordinate_genomic_to_gene / coordinate_gene_to_genomic *)
Theorem code_coordinate_genomic_to_gene_is_model : forall st gs ge g,
  Py_GenomicAnnotation.coordinate_genomic_to_gene st gs ge g = g2gene st gs ge g.
Proof. exact code_coordinate_genomic_to_gene_is_model_l. Qed.
Print Assumptions code_coordinate_genomic_to_gene_is_model.

Theorem code_coordinate_gene_to_genomic_is_model : forall st gs ge i,
  Py_GenomicAnnotation.coordinate_gene_to_genomic st gs ge i = gene2g st gs ge i.
Proof. exact code_coordinate_gene_to_genomic_is_model_l. Qed.
Print Assumptions code_coordinate_gene_to_genomic_is_model.

(* TranscriptAnnotationModel.get_cds_start_index *)
Theorem code_get_cds_start_index_is_model : forall st ex cs,
  Py_TranscriptAnnotationModel.get_cds_start_index st ex cs = cds_start_index st ex cs.
Proof. exact code_get_cds_start_index_is_model_l. Qed.
Print Assumptions code_get_cds_start_index_is_model.

(* TranscriptAnnotationModel.is_exonic *)
Theorem code_is_exonic_is_model : forall ex g,
  Py_TranscriptAnnotationModel.is_exonic ex g = exonic ex g.
Proof. exact code_is_exonic_is_model_l. Qed.
Print Assumptions code_is_exonic_is_model.

(* GenomicAnnotation.coordinate_gene_to_transcript: its calls of coordinate_gene_to_genomic and
   get_transcript_index are mapped to gene2g / g2tx, which the obligations above tie to their own code *)
Theorem code_coordinate_gene_to_transcript_is_model : forall gst gs ge member tst ex i,
  Py_GenomicAnnotation.coordinate_gene_to_transcript gst gs ge member tst ex i = gene2tx gst gs ge member tst ex i.
Proof. exact code_coordinate_gene_to_transcript_is_model_l. Qed.
Print Assumptions code_coordinate_gene_to_transcript_is_model.

(* gtf/GTFPointer.py iterate_pointer -- a generator; `yield p` appends to the returned list -- translated from the
   source on every run (coq/Gen/Py_GTFPointer.v): byte offsets over the byte lines, comment lines counted, gene /
   transcript pointers opened, extended (`.end = line_end`) and yielded in the model's order, transcript ids added to
   the current gene pointer.  Hypothesis: no line is empty (a line read from a file handle is not): the code tests
   `if cur_gene_pointer:` through GTFPointer.__len__ (end - start > 0), the model GtfPtr.istep tests "is set"; on an
   empty first line of a block the two differ, everywhere else they are equal. *)
From MoPep Require Gen.Py_GTFPointer.
From MoPep Require Import Model.PyRt Proofs.Py2CoqGtfPtrProofs.

Theorem code_gtf_iterate_pointer_translated : Py_GTFPointer.py_gtf_iterate_pointer_untranslated = false.
Proof. vm_compute. reflexivity. Qed.
Print Assumptions code_gtf_iterate_pointer_translated.

Theorem code_gtf_iterate_pointer_is_model : forall lines, Forall (fun l => fst l <> []) lines ->
  Py_GTFPointer.py_gtf_iterate_pointer lines = POk (iterate lines).
Proof. exact code_gtf_iterate_pointer_is_model_l. Qed.
Print Assumptions code_gtf_iterate_pointer_is_model.

(* the repair of finding C11-bookend-plus (fix c35675e; Anno.g2tx_plus is the repaired arm, g2tx_plus_old
   the arm as written before) changed nothing on well-separated exon lists inside the range test of
   get_transcript_index: every theorem above held for the old arm too *)
Theorem bookend_fix_equiv : forall ex lo g acc, wf_from lo ex = true -> ex <> [] -> g < last_end ex ->
  g2tx_plus ex g acc = g2tx_plus_old ex g acc.
Proof. exact bookend_fix_equiv_l. Qed.
Print Assumptions bookend_fix_equiv.

(* ---- get_cdna_sequence: body tied to the model (py2coq target 24; Gen/Py_TAM_cdna.v is regenerated
        from the source text on every run) ---- *)
From MoPep Require Gen.Py_TAM_cdna.
From MoPep Require Import Proofs.Py2CoqCdnaProofs.

Theorem code_cdna_sequence_translated : Py_TAM_cdna.py_cdna_sequence_untranslated = false.
Proof. reflexivity. Qed.
Print Assumptions code_cdna_sequence_translated.

Theorem code_cdna_sequence_is_model : forall tbl st ex cs chrom,
  Py_TAM_cdna.py_cdna_sequence tbl st ex cs chrom = cdna_sequence tbl st ex cs chrom.
Proof. exact code_cdna_sequence_is_model_l. Qed.
Print Assumptions code_cdna_sequence_is_model.
