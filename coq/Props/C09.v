(* C09 - callAltTranslation equals the definitional alt-translation digest.  Property theorems only. *)
From Coq Require Import ZArith List Bool Lia.
From MoPep Require Gen.Expasy Model.ExpasyRef Proofs.ExpasyProofs.
From MoPep Require Import Model.Base Model.Rule Model.Digest Model.W2F Model.NovelOrf Model.Anno Model.AltTrans
                          Gen.Bio
                          Proofs.W2FProofs Proofs.CleaveSpec Proofs.NovelOrfProofs Proofs.AnnoProofs
                          Proofs.AltTransProofs Proofs.AltTransCfgProofs.
Import ListNotations.
Open Scope Z_scope.

(* (F) MiscleavedNodes.translational_modification: the SECT-labelled outputs for one joined peptide are exactly
   the prefixes before an annotated Sec (and their Met-removed forms at a start codon) passing the validity filter *)
Theorem sect_trunc : forall valid start secs s u q,
  In (Some u, q) (node_tmod valid start secs s) <-> In u secs /\ TmodForm valid start (firstn u s) q.
Proof. exact AltTransProofs.sect_trunc. Qed.
Print Assumptions sect_trunc.

Theorem sect_trunc_none : forall valid start secs s q,
  In (None, q) (node_tmod valid start secs s) <-> TmodForm valid start s q.
Proof. exact AltTransProofs.sect_trunc_none. Qed.
Print Assumptions sect_trunc_none.

(* (S) "translation stopping at an annotated Sec codon": if residue u of the annotated translation is a Sec,
   translating with THAT codon read as a stop gives exactly the prefix before it *)
Theorem sect_is_stop_at_sec : forall tbl, no_U tbl -> forall dna secs pos u,
  nth_error (translate_cds tbl secs pos dna) u = Some U_code ->
  translate_cds tbl (remZ (pos + 3 * Z.of_nat u) secs) pos dna = firstn u (translate_cds tbl secs pos dna).
Proof. exact AltTransProofs.sect_is_stop_at_sec. Qed.
Print Assumptions sect_is_stop_at_sec.

(* (translator) the premise holds for the codon table regenerated from the installed Biopython *)
Theorem bio_table_no_U : no_U codon_table.
Proof. exact AltTransCfgProofs.bio_table_no_U. Qed.
Print Assumptions bio_table_no_U.

(* (F) create_variant_sect: the number in "SECT-n" is the 1-based gene coordinate of the first base of the Sec
   codon; coordinate_gene_to_transcript (C11 model) maps it back to the codon's transcript position *)
Theorem sect_id_names_codon : forall tst ex gst gs ge pos,
  wf ex = true -> strand_ok tst -> strand_ok gst -> 0 <= pos -> pos + 2 < tx_len ex ->
  gs <= first_start ex -> last_end ex <= ge ->
  exists n, sect_id tst ex gst gs ge pos = Ok n /\ 1 <= n <= ge - gs /\
            gene2tx gst gs ge true tst ex (n - 1) = Ok pos.
Proof. exact AltTransProofs.sect_id_names_codon. Qed.
Print Assumptions sect_id_names_codon.

(* (F) W>F images = exactly the images under the non-empty subsets of the W positions *)
Theorem w2f_enum : forall p q,
  In q (w2f_images p) <-> exists S, S <> [] /\ sublist S (w_positions p) /\ q = apply_w2f S p.
Proof. exact W2FProofs.w2f_enum. Qed.
Print Assumptions w2f_enum.

(* (S) membership in the computed obliged set <-> the property's statement: q is not canonical and for some
   coding transcript it is a digestion product of the translation stopped at an annotated Sec (flag), or a W>F
   image within the limits (flag) of a digestion product of the annotated protein or of such a truncation *)
Theorem alt_spec_iff : forall wt water lim r exc sect w2f pool cs q,
  In q (alt_must wt water lim r exc sect w2f pool cs) <-> AltMust wt water lim r exc sect w2f pool cs q.
Proof. exact AltTransProofs.alt_spec_iff. Qed.
Print Assumptions alt_spec_iff.

Theorem alt_may_iff : forall wt water lim r exc sect w2f pool cs q,
  In q (alt_may wt water lim r exc sect w2f pool cs) <-> AltMay wt water lim r exc sect w2f pool cs q.
Proof. exact AltTransProofs.alt_may_iff. Qed.
Print Assumptions alt_may_iff.

Theorem alt_must_sub_may : forall wt water lim r exc sect w2f pool cs q,
  In q (alt_must wt water lim r exc sect w2f pool cs) -> In q (alt_may wt water lim r exc sect w2f pool cs).
Proof. exact AltTransProofs.alt_must_sub_may. Qed.
Print Assumptions alt_must_sub_may.

(* (S) the header checker is the declarative witness statement: the SECT / W2F events named in the header
   suffice to produce the peptide *)
Theorem alt_header_suffices : forall wt water lim r exc c so ws q,
  header_ok wt water lim r exc c so ws q = true <-> HeaderWitness wt water lim r exc c so ws q.
Proof. exact AltTransProofs.alt_header_suffices. Qed.
Print Assumptions alt_header_suffices.

(* (S) and it is not vacuous: every permitted peptide has a header the checker accepts *)
Theorem spec_labels_witness : forall wt water lim r exc sect w2f pool cs q,
  In q (alt_may wt water lim r exc sect w2f pool cs) ->
  exists c so ws, In c cs /\ header_ok wt water lim r exc c so ws q = true.
Proof. exact AltTransProofs.spec_labels_witness. Qed.
Print Assumptions spec_labels_witness.

(* The oracle of this property digests with the rule tables regenerated from expasy_rules.py
   (coq/Gen/Expasy.v); they must be the ExPASy reference rules (same obligation as in Props/C10.v),
   otherwise model and implementation would silently follow a changed rule together. *)
Theorem rules_are_expasy_reference : MoPep.Gen.Expasy.site_rules = MoPep.Model.ExpasyRef.reference_rules.
Proof. exact MoPep.Proofs.ExpasyProofs.rules_match_reference_proof. Qed.
Print Assumptions rules_are_expasy_reference.
