(* C15 (parser half) - fusion parsers yield the fusion transcript defined by the breakpoints.
   Model: Model/Fusion.v (convert = convert_to_variant_records of the three parsers, cli = the CLI loops with evidence
   filters and skip counting, fusion_apply = shift_breakpoint_to_closest_exon + fusion branch of to_transcript_variant,
   fused_seq = declarative fusion transcript).  Proofs: Proofs/FusionProofs.v.
   The callVariant-peptide half of C15 belongs to the C02 machinery and is not in this file. *)
From MoPep Require Import Model.Base Model.Rmats Model.Fusion Proofs.RmatsProofs Proofs.FusionProofs.
Open Scope Z_scope.

(* fusion_denotes (FULL: all three tools, all four strand combinations, exonic and intronic breakpoints).
   For a row with 1-based breakpoints L (last donor base) and R (first accepter base):
     - the emitted records are exactly the pairs of transcripts whose span contains the breakpoints,
     - POS - 1 / ACCEPTER_POSITION are the gene coordinates of genomic L-1 / R-1 (strand-aware),
     - every record, read through shift_breakpoint_to_closest_exon + the fusion branch of to_transcript_variant
       (fusion_apply), denotes exactly fused_seq: donor transcript up to the left breakpoint (+ the intronic bases
       between the preceding exon and an intronic breakpoint) ++ (intronic bases from an intronic right breakpoint to
       the next exon +) accepter transcript from the right breakpoint.
   Hypotheses: both genes well-formed (wf_gene) and the transcript lines span their exons (span_ok). *)
Theorem fusion_denotes :
  forall t genes chroms dg ag L R out,
  convert t genes chroms dg ag L R = FOk out ->
  exists d a,
    lookup_gene genes dg = FOk d /\ lookup_gene genes ag = FOk a /\
    map (fun x => (f_dtx x, f_atx x)) out =
      product (txs_with_position (g_txs (w_gene d)) (L - 1) 0) (txs_with_position (g_txs (w_gene a)) (R - 1) 0) /\
    forall x, In x out ->
      gene2genomic (w_gene d) (f_pos x - 1) = L - 1 /\ gene2genomic (w_gene a) (f_apos x) = R - 1 /\
      forall td ta,
        0 <= f_dtx x -> 0 <= f_atx x ->
        nth_error (g_txs (w_gene d)) (Z.to_nat (f_dtx x)) = Some td ->
        nth_error (g_txs (w_gene a)) (Z.to_nat (f_atx x)) = Some ta ->
        wf_gene (w_gene d) (chrom_of chroms (w_chrom d)) -> wf_gene (w_gene a) (chrom_of chroms (w_chrom a)) ->
        span_ok td -> span_ok ta ->
        fusion_apply (w_gene d) (chrom_of chroms (w_chrom d)) (t_exons td)
                     (w_gene a) (chrom_of chroms (w_chrom a)) (t_exons ta) x
        = Some (fused_seq (g_strand (w_gene d)) (chrom_of chroms (w_chrom d)) (t_exons td) (L - 1)
                          (g_strand (w_gene a)) (chrom_of chroms (w_chrom a)) (t_exons ta) (R - 1)).
Proof. exact fusion_denotes_full. Qed.
Print Assumptions fusion_denotes.

(* every row is counted exactly once (processed or skipped); a record in the output comes from a row that passed the
   evidence filters, names two known genes and was converted without error *)
Theorem fusion_skips_counted :
  forall t genes chroms o rows recs tl,
  cli t genes chroms o rows = FOk (recs, tl) ->
  t_total tl = zlength rows /\ t_succeed tl + t_skipped tl = t_total tl /\
  forall y, In y recs ->
    In (fst y) rows /\ prefilter t genes o (fst y) = Go /\
    known genes (r_dg (fst y)) = true /\ known genes (r_ag (fst y)) = true /\
    exists out, convert t genes chroms (r_dg (fst y)) (r_ag (fst y)) (r_L (fst y)) (r_R (fst y)) = FOk out /\ In (snd y) out.
Proof. exact fusion_skips_counted_lemma. Qed.
Print Assumptions fusion_skips_counted.

(* what passing the filters means, per tool (STAR-Fusion est_J; FusionCatcher common-mapping / spanning-unique reads;
   Arriba split reads, confidence, known gene ids, fusion strand = gene strand) *)
Theorem fusion_evidence_thresholds :
  forall t genes o r, prefilter t genes o r = Go ->
  match t with
  | Star => r_e1 r >= o_1 o
  | FC => r_e1 r <= o_1 o /\ r_e2 r >= o_2 o
  | Arriba => r_e1 r >= o_1 o /\ r_e2 r >= o_2 o /\ r_e3 r >= o_3 o /\
              known genes (r_dg r) = true /\ known genes (r_ag r) = true /\
              r_s1 r = strand_of genes (r_dg r) /\ r_s2 r = strand_of genes (r_ag r)
  end.
Proof. exact prefilter_go. Qed.
Print Assumptions fusion_evidence_thresholds.

(* ---- non-trivial instances ---- *)
Definition ex_chrom : list Z := flat_map (fun _ => [65; 67; 71; 84; 84; 71; 67]) (repeat tt 12).   (* 84 bases *)
Definition ex_gd : gene := mkGene 1 2 40 [mkTx [(2, 10); (15, 22); (30, 40)] 2 40; mkTx [(2, 10); (30, 40)] 2 40].
Definition ex_ga : gene := mkGene (-1) 45 80 [mkTx [(45, 55); (60, 80)] 45 80].
Definition ex_genes : list wgene := [mkW ex_gd 0; mkW ex_ga 0].

(* exonic / exonic, plus donor and minus accepter, two eligible donor isoforms: the hypotheses of the theorem hold *)
Example ex_fusion_exonic :
  exists r1 r2, convert Arriba ex_genes [ex_chrom] 0 1 8 70 = FOk [r1; r2] /\
    wf_gene ex_gd ex_chrom /\ wf_gene ex_ga ex_chrom /\
    span_ok (mkTx [(2, 10); (15, 22); (30, 40)] 2 40) /\ span_ok (mkTx [(45, 55); (60, 80)] 45 80).
Proof.
  do 2 eexists. split; [vm_compute; reflexivity|].
  split; [unfold wf_gene; cbn; repeat split; try lia; intros t [<-|[<-|[]]]; cbn; lia|].
  split; [unfold wf_gene; cbn; repeat split; try lia; intros t [<-|[]]; cbn; lia|].
  split; split; reflexivity.
Qed.

(* intronic / intronic on the same pair: both retained introns *)
Example ex_fusion_intronic :
  exists r rest, convert Star ex_genes [ex_chrom] 0 1 25 58 = FOk (r :: rest) /\
    fusion_apply ex_gd ex_chrom [(2, 10); (15, 22); (30, 40)] ex_ga ex_chrom [(45, 55); (60, 80)] r
    = Some (fused_seq 1 ex_chrom [(2, 10); (15, 22); (30, 40)] 24 (-1) ex_chrom [(45, 55); (60, 80)] 57).
Proof. do 2 eexists. split; vm_compute; reflexivity. Qed.

(* skipping: an unknown gene, a row below the threshold and a good row *)
Example ex_skips :
  exists recs, cli Star ex_genes [ex_chrom] (mkOpts 500 0 0 false)
      [mkRow 0 (-1) 8 70 900 0 0 0 0; mkRow 0 1 8 70 499 0 0 0 0; mkRow 0 1 8 70 500 0 0 0 0]
    = FOk (recs, mkT 3 1 1 1 0 0) /\ length recs = 2%nat.
Proof. eexists. split; vm_compute; reflexivity. Qed.

(* ---- code-level tie (docs/py2coq.md): the BODIES of <Tool>Record.convert_to_variant_records of the three fusion
        parsers and of the record loops of the three CLIs, translated from /repo's current source by
        harness/translate/py2coq.py into coq/Gen/Py_{STARFusion,FusionCatcher,Arriba}Parser.v and
        coq/Gen/Py_parse_{star_fusion,fusion_catcher,arriba}.v on every run, are extensionally equal to Fusion.convert /
        Fusion.cli of the respective tool: the per-tool ORDER of the look-ups (which exception escapes), the REF base,
        the evidence filters, the two except handlers and every tally counter. ---- *)
From MoPep Require Gen.Py_STARFusionParser Gen.Py_FusionCatcherParser Gen.Py_ArribaParser
                   Gen.Py_parse_star_fusion Gen.Py_parse_fusion_catcher Gen.Py_parse_arriba.
From MoPep Require Import Proofs.Py2CoqFusionProofs.

Theorem code_fusion_functions_translated :
  Py_STARFusionParser.py_star_convert_untranslated = false /\ Py_FusionCatcherParser.py_fc_convert_untranslated = false /\
  Py_ArribaParser.py_arriba_convert_untranslated = false /\ Py_parse_star_fusion.py_star_cli_untranslated = false /\
  Py_parse_fusion_catcher.py_fc_cli_untranslated = false /\ Py_parse_arriba.py_arriba_cli_untranslated = false.
Proof. vm_compute. repeat split. Qed.
Print Assumptions code_fusion_functions_translated.

Theorem code_star_convert_is_model : forall genes chroms dg ag L R,
  Py_STARFusionParser.py_star_convert genes chroms dg ag L R = convert Star genes chroms dg ag L R.
Proof. exact code_star_convert_is_model_l. Qed.
Print Assumptions code_star_convert_is_model.

(* FusionCatcher: for both arms of the versioned / unversioned gene id test *)
Theorem code_fc_convert_is_model : forall versioned genes chroms dg ag L R,
  Py_FusionCatcherParser.py_fc_convert versioned genes chroms dg ag L R = convert FC genes chroms dg ag L R.
Proof. exact code_fc_convert_is_model_l. Qed.
Print Assumptions code_fc_convert_is_model.

Theorem code_arriba_convert_is_model : forall genes chroms dg ag L R,
  Py_ArribaParser.py_arriba_convert genes chroms dg ag L R = convert Arriba genes chroms dg ag L R.
Proof. exact code_arriba_convert_is_model_l. Qed.
Print Assumptions code_arriba_convert_is_model.

Theorem code_star_cli_is_model : forall genes chroms o rows,
  Py_parse_star_fusion.py_star_cli genes chroms o rows = cli Star genes chroms o rows.
Proof. exact code_py_star_cli_is_model_l. Qed.
Print Assumptions code_star_cli_is_model.

Theorem code_fc_cli_is_model : forall genes chroms o rows,
  Py_parse_fusion_catcher.py_fc_cli genes chroms o rows = cli FC genes chroms o rows.
Proof. exact code_py_fc_cli_is_model_l. Qed.
Print Assumptions code_fc_cli_is_model.

Theorem code_arriba_cli_is_model : forall genes chroms o rows,
  Py_parse_arriba.py_arriba_cli genes chroms o rows = cli Arriba genes chroms o rows.
Proof. exact code_py_arriba_cli_is_model_l. Qed.
Print Assumptions code_arriba_cli_is_model.

(* TranscriptAnnotationModel.get_upstream_exon_end / get_downstream_exon_start (the exon look-ups of
   VariantRecord.shift_breakpoint_to_closest_exon for an intronic fusion breakpoint), translated from the source on
   every run (coq/Gen/Py_TranscriptAnnotationModel_fusion.v): None = the function's ValueError or the UnboundLocalError
   of `ind` when the first exon already ends the loop.  Hypothesis: exon coordinates are non-negative and exons
   non-empty (the code uses -1 as "not found", the model an option). *)
From MoPep Require Gen.Py_TranscriptAnnotationModel_fusion.

Theorem code_exon_lookups_translated :
  Py_TranscriptAnnotationModel_fusion.py_upstream_exon_end_untranslated = false /\
  Py_TranscriptAnnotationModel_fusion.py_downstream_exon_start_untranslated = false.
Proof. vm_compute. split; reflexivity. Qed.
Print Assumptions code_exon_lookups_translated.

Theorem code_upstream_exon_end_is_model : forall strand ex pos, Forall (fun x : exon => 0 <= fst x < snd x) ex ->
  Py_TranscriptAnnotationModel_fusion.py_upstream_exon_end strand ex pos = upstream_exon_end strand ex pos.
Proof. exact code_upstream_exon_end_is_model_l. Qed.
Print Assumptions code_upstream_exon_end_is_model.

Theorem code_downstream_exon_start_is_model : forall strand ex pos, Forall (fun x : exon => 0 <= fst x < snd x) ex ->
  Py_TranscriptAnnotationModel_fusion.py_downstream_exon_start strand ex pos = downstream_exon_start strand ex pos.
Proof. exact code_downstream_exon_start_is_model_l. Qed.
Print Assumptions code_downstream_exon_start_is_model.
