(* C19 - filterFasta keeps exactly the entries satisfying its criteria.
   Model: Model/Filter.v (abstract FASTA = list of (sequence, list of entry facts); concrete layer with
   headers parsed by Model/Header.v).  All statements are for every pool, option set, enzyme rule. *)
From MoPep Require Gen.Expasy Model.ExpasyRef Proofs.ExpasyProofs.
From MoPep Require Import Model.Base Gen.HeaderCfg Model.Rule Model.Digest Model.Header Model.HeaderRef Model.Filter
  Proofs.FilterProofs Proofs.HeaderProofs.
Open Scope Z_scope.

(* A peptide is in the output iff it is a (first-occurrence) input peptide whose miscleavage count is in
   range and whose list of kept entries is non-empty; the output entries are exactly the kept ones, in
   order; and an entry is kept iff it satisfies the stated rule [keep_rule]. *)
Theorem filter_iff : forall o pool out,
  filter_pool o pool = Ok out ->
  (forall s es', In (s, es') out <->
     exists es, In (s, es) (dedup pool) /\ misc_ok o s = true /\
                es' = filter (keep_b o (in_denylist o s)) es /\ es' <> []) /\
  (forall s es e, In (s, es) (dedup pool) -> misc_ok o s = true -> In e es ->
     (keep_b o (in_denylist o s) e = true <-> keep_rule o (in_denylist o s) e)).
Proof. exact filter_iff_l. Qed.
Print Assumptions filter_iff.

(* the decision itself, whenever it does not raise *)
Theorem filter_entry_iff : forall o d e b,
  keep_entry o d e = Ok b -> (b = true <-> keep_rule o d e).
Proof. exact keep_entry_rule. Qed.
Print Assumptions filter_entry_iff.

(* VariantPeptidePool.load: of several records with one sequence the first survives *)
Theorem load_first_wins : forall (l : list pep) p,
  In p (dedup l) <->
  exists l1 l2, l = l1 ++ p :: l2 /\ forall q, In q l1 -> eq_seq (fst q) (fst p) = false.
Proof. exact (@dedup_first (list entry)). Qed.
Print Assumptions load_first_wins.

(* output is a sub-collection: same sequences, entries a subsequence; sequences pairwise distinct *)
Theorem filter_sub : forall o pool out,
  filter_pool o pool = Ok out ->
  (forall s es', In (s, es') out -> exists es, In (s, es) pool /\ sublist es' es) /\ nodup_seq out.
Proof. exact filter_sub_l. Qed.
Print Assumptions filter_sub.

Theorem filter_idem : forall o pool out,
  filter_pool o pool = Ok out -> filter_pool o out = Ok out.
Proof. exact filter_idem_l. Qed.
Print Assumptions filter_idem.

Theorem filter_mono_cutoff : forall o c1 c2 pool out1 out2, c1 <= c2 ->
  filter_pool (with_cutoff o (Some c1)) pool = Ok out1 ->
  filter_pool (with_cutoff o (Some c2)) pool = Ok out2 ->
  sub_pool out2 out1.
Proof. exact filter_mono_cutoff_l. Qed.
Print Assumptions filter_mono_cutoff.

Theorem filter_mono_misc : forall o lo1 hi1 lo2 hi2 pool out1 out2, narrower lo1 hi1 lo2 hi2 ->
  filter_pool (with_misc o lo1 hi1) pool = Ok out1 ->
  filter_pool (with_misc o lo2 hi2) pool = Ok out2 ->
  sub_pool out2 out1.
Proof. exact filter_mono_misc_l. Qed.
Print Assumptions filter_mono_misc.

(* the string-level function refines the abstract one whenever the header parses *)
Theorem filter_concrete_refines : forall o s hdr ids es,
  parse_label hdr = Ok ids -> mapM entry_facts ids = Ok es ->
  filter_pep_c o (s, hdr) =
  match filter_pep o (s, es) with
  | Ok r => Ok (option_map (fun p => (fst p, map e_label (snd p))) r)
  | Err e => Err e
  end.
Proof. exact filter_pep_c_refines. Qed.
Print Assumptions filter_concrete_refines.

(* The constants and code shapes Header.v depends on were recognised by the translator in the
   current source (fail-closed marker). *)
Theorem header_cfg_recognised : cfg_recognised = true.
Proof. vm_compute. reflexivity. Qed.
Print Assumptions header_cfg_recognised.

(* The tables and the splice test read from the current source coincide with the hand-written
   reference Model/HeaderRef.v.  A change of VariantPrefix, of the list alt_splice_types or of the test in
   is_alternative_splicing breaks THIS obligation (it is not followed silently). *)
Theorem header_tables_are_spec :
  cfg_ctbv_prefixes = ref_ctbv_prefixes /\ cfg_alt_translation_prefixes = ref_alt_translation_prefixes /\
  cfg_alt_splice_types = ref_splice_types /\ cfg_splice_test = 2 /\
  cfg_source_novel_orf = ref_source_novel_orf /\ cfg_source_codon_reassign = ref_source_codon_reassign /\
  cfg_source_sect = ref_source_sect /\ cfg_sect_type = ref_source_sect /\
  cfg_codon_reassign_types = [[87;50;70]] /\ cfg_entry_delim = 32 /\ cfg_key_sep = 45 /\
  cfg_circ_orf_first = false /\ cfg_fusion_orf_first = false.
Proof. exact header_tables_are_spec_l. Qed.
Print Assumptions header_tables_are_spec.

(* the flag e_splice consulted by [keep_rule] is the specified notion of "splice altering": the entry
   carries an rMATS-type variant id <TYPE>_... (a SECT id does not count) *)
Theorem splice_flag_is_spec : forall i, ident_is_alt_splicing i = spec_is_splice_altering (i_v1 i).
Proof. exact splice_flag_is_spec_l. Qed.
Print Assumptions splice_flag_is_spec.

(* The entry text written back is print(parse(entry)).  The reference fixes the print order to the order
   of emission (ORF id after the variant ids; part of header_tables_are_spec since /repo 438e764); the
   witness below is the fusion entry of the former finding: it is now reproduced verbatim. *)
Theorem fusion_orf_entry_verbatim :
  exists i, parse_entry w_fusion_orf = Ok i /\ print_ident i = w_fusion_orf.
Proof. exact fusion_orf_entry_verbatim_l. Qed.
Print Assumptions fusion_orf_entry_verbatim.

(* the hypotheses are satisfiable by a non-trivial state: two peptides, one entry dropped by the
   cutoff, one exempt as fusion, one peptide dropped entirely *)
Definition ex_opts : opts :=
  mkOpts (Some [([1], 5); ([2], 1)]) (Some 3) [[1]] false false false None None None [] None.
Definition ex_pool : list pep :=
  [ ([65], [mkEntry [10] [[1]] false false false; mkEntry [11] [[2]] false false false;
            mkEntry [12] [[2]; [1]] true false false]);
    ([66], [mkEntry [13] [[2]] false false false]) ].
Example filter_example :
  filter_pool ex_opts ex_pool =
  Ok [([65], [mkEntry [10] [[1]] false false false; mkEntry [12] [[2]; [1]] true false false])].
Proof. vm_compute. reflexivity. Qed.

(* ---- code-level tie (docs/py2coq.md): the per-entry decision loop of VariantPeptidePool.filter (`keep = []` ..
        `for entry in peptide_entries:`: denylist / keep-canonical, keep-all-noncoding, keep-all-coding, expression
        cut-off with the fusion / circRNA / splice exemptions, IndexError / KeyError / TypeError paths), translated
        from /repo's current source by harness/translate/py2coq.py into coq/Gen/Py_VariantPeptidePool.v on every run,
        computes exactly Filter.keep_list for every option set, denylist flag and entry list. ---- *)
From MoPep Require Gen.Py_VariantPeptidePool.
From MoPep Require Import Proofs.Py2CoqFilterProofs.

Theorem code_filter_loop_translated : Py_VariantPeptidePool.py_keep_list_untranslated = false.
Proof. vm_compute. reflexivity. Qed.
Print Assumptions code_filter_loop_translated.

Theorem code_keep_list_is_model : forall o d es,
  Py_VariantPeptidePool.py_keep_list o d es = keep_list o d es.
Proof. exact code_keep_list_is_model_l. Qed.
Print Assumptions code_keep_list_is_model.

(* The oracle of this property digests with the rule tables regenerated from expasy_rules.py
   (coq/Gen/Expasy.v); they must be the ExPASy reference rules (same obligation as in Props/C10.v),
   otherwise model and implementation would silently follow a changed rule together. *)
Theorem rules_are_expasy_reference : MoPep.Gen.Expasy.site_rules = MoPep.Model.ExpasyRef.reference_rules.
Proof. exact MoPep.Proofs.ExpasyProofs.rules_match_reference_proof. Qed.
Print Assumptions rules_are_expasy_reference.

(* the WHOLE VariantPeptidePool.filter (miscleavage window with its None / TypeError cases, denylist flag, per-entry
   loop, `if keep:`), translated from the source on every run, is the model's per-peptide function mapped over the
   (deduplicated) pool, errors included *)
Theorem code_filter_translated : Py_VariantPeptidePool.py_filter_untranslated = false.
Proof. vm_compute. reflexivity. Qed.
Print Assumptions code_filter_translated.

Theorem code_filter_is_model : forall o peps,
  Py_VariantPeptidePool.py_filter o peps = bind (mapM (filter_pep o) peps) (fun rs => Ok (flat_map opt_list rs)).
Proof. exact code_filter_is_model_l. Qed.
Print Assumptions code_filter_is_model.
