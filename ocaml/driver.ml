(* Line protocol around the extracted oracle.
   request :  <api name> <TAB> <value>      value ::= int | '[' value (',' value)* ']'
   reply   :  <value>                        (one line per request)
   ints are converted to/from Coq's binary Z here; nothing else is interpreted. *)
open Datatypes
open BinNums
open Base

let rec pos_of_int (n : int) : positive =
  if n = 1 then Coq_xH
  else if n land 1 = 0 then Coq_xO (pos_of_int (n lsr 1))
  else Coq_xI (pos_of_int (n lsr 1))

let z_of_int (n : int) : coq_Z =
  if n = 0 then Z0 else if n > 0 then Zpos (pos_of_int n) else Zneg (pos_of_int (-n))

let rec int_of_pos = function
  | Coq_xH -> 1
  | Coq_xO p -> 2 * int_of_pos p
  | Coq_xI p -> 2 * int_of_pos p + 1

let int_of_z = function Z0 -> 0 | Zpos p -> int_of_pos p | Zneg p -> - (int_of_pos p)

(* parser *)
let parse (s : string) : coq_val =
  let n = Stdlib.String.length s in
  let i = ref 0 in
  let rec skip () = if !i < n && (s.[!i] = ' ' || s.[!i] = ',') then (incr i; skip ()) in
  let rec value () : coq_val =
    skip ();
    if !i < n && s.[!i] = '[' then begin
      incr i;
      let items = ref [] in
      let rec loop () =
        skip ();
        if !i < n && s.[!i] = ']' then incr i
        else begin items := value () :: !items; loop () end in
      loop ();
      VL (Stdlib.List.rev !items)
    end else begin
      let st = !i in
      if !i < n && s.[!i] = '-' then incr i;
      while !i < n && s.[!i] >= '0' && s.[!i] <= '9' do incr i done;
      VZ (z_of_int (int_of_string (Stdlib.String.sub s st (!i - st))))
    end in
  value ()

let rec print buf (v : coq_val) =
  match v with
  | VZ z -> Stdlib.Buffer.add_string buf (string_of_int (int_of_z z))
  | VL l ->
      Stdlib.Buffer.add_char buf '[';
      Stdlib.List.iteri (fun k x -> if k > 0 then Stdlib.Buffer.add_char buf ','; print buf x) l;
      Stdlib.Buffer.add_char buf ']'

let () =
  let buf = Stdlib.Buffer.create 65536 in
  (try
    while true do
      let line = input_line stdin in
      match Stdlib.String.index_opt line '\t' with
      | None -> print_endline "ERR"
      | Some k ->
          let name = Stdlib.String.sub line 0 k in
          let arg = Stdlib.String.sub line (k + 1) (Stdlib.String.length line - k - 1) in
          (match Stdlib.List.assoc_opt name Table.table with
           | None -> print_endline "ERR-unknown-api"
           | Some f ->
               Stdlib.Buffer.clear buf;
               (try print buf (f (parse arg)); print_endline (Stdlib.Buffer.contents buf)
                with Stack_overflow -> print_endline "ERR-stack"
                   | Not_found -> print_endline "ERR-exn"))
    done
  with End_of_file -> ())
